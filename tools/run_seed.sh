#!/bin/bash
# usage: run_seed.sh <seed-name> <property> [tier]   -- apply the seeded change to /repo, run the check, undo
name=$1; prop=$2; tier=${3:-quick}
cd /repo && git diff --quiet || { echo "/repo dirty"; exit 2; }
git apply /verif/seeded/$name/patch.diff || { echo "$name: patch does not apply"; exit 2; }
cd /verif && timeout 1500 ./check $prop --tier $tier > /tmp/seedrun_$name.log 2>&1; rc=$?
git -C /repo checkout -- .
# evidence file was rewritten by the mutated run: not to be committed
git -C /verif checkout -- evidence/$prop.json 2>/dev/null
echo "$name on $prop/$tier: exit=$rc $(grep -c '^VIOLATION' /tmp/seedrun_$name.log) VIOLATION lines; $(grep 'violations by' /tmp/seedrun_$name.log | head -1)"
