#!/bin/bash
# usage: run_seed_wt.sh <seed-name> <property> [tier]  -- like run_seed.sh but in a scratch worktree (does not touch /repo or the evidence files)
name=$1; prop=$2; tier=${3:-quick}
wt=/tmp/wt_run_$name
git -C /repo worktree add -q --detach $wt HEAD || exit 2
# the patch was made against an earlier commit of /repo; later "fix:" commits may have moved its context: fall back to a 3-way apply
git -C $wt apply /verif/seeded/$name/patch.diff 2>/dev/null || git -C $wt apply --3way /verif/seeded/$name/patch.diff 2>/dev/null || { echo "$name: patch does not apply"; git -C /repo worktree remove --force $wt; exit 2; }
cd /verif && SYNKIT_REPO=$wt PYTHONPATH=$wt VERIF_EVIDENCE_OUT=/tmp/ev_$name.json timeout 1500 ./check $prop --tier $tier > /tmp/seedrun_$name.log 2>&1; rc=$?
git -C /repo worktree remove --force $wt
rm -rf /tmp/ev_$name.json /tmp/ev_$name.json.replays
echo "$name on $prop/$tier: exit=$rc $(grep -c '^VIOLATION' /tmp/seedrun_$name.log) VIOLATION lines; $(grep 'violations by' /tmp/seedrun_$name.log | head -1 | cut -c1-300)"
