#!/bin/bash
# usage: confirm_seed.sh <worktree> <name>   -- confirms tests pass with patch, demo 1 with patch, demo 0 clean; then copies to /verif/seeded/<name>
wt=$1; name=$2; d=$wt/seed_out/$name
cd $wt || exit 2
git checkout -q -- . ; git apply --check $d/patch.diff || { echo "$name: patch does not apply"; exit 2; }
/venv/bin/python $d/demo.py >/dev/null 2>&1; clean=$?
git apply $d/patch.diff
/venv/bin/python $d/demo.py >/dev/null 2>&1; withp=$?
tests=$(/venv/bin/python -m pytest -q -p no:cacheprovider --timeout=900 -x 2>&1 | tail -1)
git checkout -q -- .
echo "$name: demo_clean=$clean demo_patch=$withp tests: $tests"
if [ "$clean" = 0 ] && [ "$withp" = 1 ] && echo "$tests" | grep -q passed && ! echo "$tests" | grep -q failed; then
  mkdir -p /verif/seeded/$name && cp $d/patch.diff $d/demo.py $d/meta.json /verif/seeded/$name/
  echo "$name: CONFIRMED"
else
  echo "$name: REJECTED"
fi
