ENGINES = [
    {"name": "E1", "path": "mc/core.py (run_subs) + mc/enum_*.py", "serves_properties": [], "kind_free_text": "bounded-exhaustive input enumeration on the real code against independent oracles"},
    {"name": "E2", "path": "mc/core.py (bfs_explore)", "serves_properties": ["C15"], "kind_free_text": "explicit-state breadth-first search over operation histories on the real object, states merged on a canonical snapshot, reference model compared after every transition"},
    {"name": "E3", "path": "mc/seams.py", "serves_properties": [], "kind_free_text": "stateless deviation-bounded exploration of environment answers (id reuse, batch cuts, completion orders)"},
]
NOTES = "All checks run /repo's working tree via the editable install in /venv. No source hooks. Genuine defects repaired by 'fix:' commits are listed in known_findings.json under 'fixed'."
CHECKS = {
    "C15": {
        "ready": True, "engine": "E2",
        "technique": "explicit-state BFS over all operation histories to depth 4 (quick) / 5-6 (thorough) on the real CRNHyperGraph vs. a dict reference model",
        "text": "Every history of add/remove/remove-species/merge/copy/assign operations up to the depth bound over a 3-species, 2-rule alphabet (with explicit ids that look generated) is executed on the real object; after every transition reactions, ids, species set, both indices, molecule labels and both incidence-matrix forms are compared with a reference model, and a copy taken before the transition is checked to be unaffected and to behave identically. Exhaustive within the bound, which is the small scope in which id-collision and index-bookkeeping defects live.",
        "note": "Alphabet and depth bound as stated in the evidence; state merging keeps every attribute of the object, so merged states have equal futures. The reference model adopts whatever fresh id the implementation returns.",
    },
}
