ENGINES = [
    {"name": "E1", "path": "mc/core.py (run_subs) + mc/enum_graphs.py, enum_crn.py, enum_rxn.py, its_family.py, curated.py", "serves_properties": ["C01", "C02", "C03", "C04", "C05", "C06", "C07", "C08", "C09", "C10", "C11", "C12", "C13", "C16", "C17", "C18", "C19", "C20"], "kind_free_text": "bounded-exhaustive enumeration of a written-down finite input family, executed on the real code, every case compared with an independent oracle (backtracking morphism enumerator, exact rational linear algebra, dict reference store, exhaustive marking reachability, RDKit)"},
    {"name": "E2", "path": "mc/core.py (bfs_explore), mc/edit_layer.py, history sub-checks in c07/c13/c14/c20", "serves_properties": ["C15", "C07", "C13", "C14", "C17", "C18", "C19", "C20"], "kind_free_text": "explicit-state breadth-first search / exhaustive enumeration of operation histories on the real object (states merged on a canonical snapshot that keeps every attribute), reference model or fresh-object differential after every transition"},
    {"name": "E3", "path": "mc/seams.py (Chooser, explore, IdSeam, ObjectIdSeam, VirtualParallel), mc/run.py (hashseed_runs)", "serves_properties": ["C14", "C18", "C05", "C08", "C13", "C15", "C16"], "kind_free_text": "stateless deviation-bounded exploration of environment answers: id() reuse of dead objects, every cut of a task list into pickled batches, container insertion orders, PYTHONHASHSEED; all executions with 0, 1, 2 deviations from the default answer"},
]
NOTES = "All checks run /repo's working tree via the editable install in /venv. No source hooks. Genuine defects repaired by 'fix:' commits are listed in known_findings.json under 'fixed'."
CHECKS = {
    "C15": {
        "ready": True, "engine": "E2",
        "technique": "explicit-state BFS over all operation histories to depth 4 (quick) / 5-6 (thorough) on the real CRNHyperGraph vs. a dict reference model",
        "text": "Every history of add/remove/remove-species/merge/copy/assign operations up to the depth bound over a 3-species, 2-rule alphabet (with explicit ids that look generated) is executed on the real object; after every transition reactions, ids, species set, both indices, molecule labels and both incidence-matrix forms are compared with a reference model, and a copy taken before the transition is checked to be unaffected and to behave identically. Exhaustive within the bound, which is the small scope in which id-collision and index-bookkeeping defects live.",
        "note": "Alphabet and depth bound as stated in the evidence; state merging keeps every attribute of the object, so merged states have equal futures. The reference model adopts whatever fresh id the implementation returns.",
    },
    "C17": {
        "ready": True, "engine": "E1",
        "technique": "bounded-exhaustive enumeration of all small reaction networks, real stoich code vs. exact rational linear algebra with verified positivity certificates",
        "text": "Every network with <=2 reactions over 3 species and coefficients {0,1,2} (thorough: all labelled ones, 3 reactions with {0,1}, 4 species) plus textbook families is analysed by the real code; matrix (as a multiset of labelled columns), rank, both kernel bases (dimension, annihilation, independence), semiflows, conservativity/consistency flags, witnesses and summary are compared with exact arithmetic. Positivity is decided only with an exactly verified certificate (positive integer kernel vector or Stiemke alternative), so neither a false 'yes' nor a false 'no' can pass.",
        "note": "Small-scope: 3-4 species, coefficients <=2. Floating comparisons at 1e-8 relative. Known finding D11 (conservativity false negative when dim ker(S^T)>=2) is matched as an input class, see known_findings.json.",
    },
    "C19": {
        "ready": True, "engine": "E1",
        "technique": "bounded-exhaustive enumeration of all small reaction networks, DeficiencyAnalyzer vs. first-principles complexes / union-find / reachability / exact rank",
        "text": "Same network families as C17; for each, complexes, linkage classes, weak reversibility, deficiency, per-class deficiencies and their bounds are recomputed from the definitions and compared with the analyzer run on the hypergraph and on both exported bipartite graphs.",
        "note": "Small-scope: 3-4 species, <=3 reactions. Linkage-class deficiencies compared as multisets.",
    },
    "C20": {
        "ready": True, "engine": "E1",
        "technique": "bounded-exhaustive enumeration of small networks x all species subsets x all small markings x all small flows; exhaustive marking reachability as oracle",
        "text": "Every labelled network with <=3 unit-coefficient reactions over 3 species (thorough: coefficients <=2, 4 species, flows up to 3): minimal siphons/traps (for every max_size, from hypergraph and bipartite input, and through PetriAnalyzer) against the definitions evaluated on every subset; enabled/fire on every marking in {0,1,2}^s; is_realizable for every flow in {0..2}^r against an exhaustive search over (marking, remaining firings), certificates replayed step by step.",
        "note": "Small-scope bounds as stated; the implementation's own max_states bound is never reached on these sizes (oracle state count asserted <= 10^4), so 'unrealizable' answers are compared with a complete search. siphon_persistence_condition is not part of the property statement and is not judged.",
    },
    "C16": {
        "ready": True, "engine": "E1",
        "technique": "bounded-exhaustive enumeration of small networks x label/coefficient/id/molecule-label schemes x every invertible export flag combination; reference-model equality after each round trip",
        "text": "Every network with <=2 reactions over 3 species and coefficients {0,1,2} (thorough: all labelled, 3 reactions, 4 species) and all ordered triples (thorough: quadruples) of reactions that share one species pair with different coefficients are exported and re-imported through the bipartite graph (8 flag combinations), reaction strings (4) and the species graph (2); ids, rules, coefficients, molecule labels (including falsy ones) and species sets are compared exactly.",
        "note": "Label domain: labels start with a letter, contain no blank/+/>/|; species labels and reaction ids disjoint. Scheme choice per network is a deterministic hash, not a random draw.",
    },
    "C18": {
        "ready": True, "engine": "E1+E3",
        "technique": "bounded-exhaustive enumeration of networks x all presentations (renamings, reaction orders, id schemes) x views; global grouping by canonical digest verified with an independent isomorphism enumerator; deviation-bounded exploration of id() reuse",
        "text": "Every network with <=3 unit-coefficient reactions over 3 species up to permutation (plus a coefficient-2 family and symmetric rings) is canonicalised under all 6 renamings x all reaction orders x 2 id schemes in 3 view configurations; all presentations must give the same canonical graph, which must be isomorphic to the view; canonical digests of the whole family are grouped and every group is verified pairwise isomorphic (non-isomorphic views never share a canonical graph); automorphism counts and orbits of CRNCanonicalizer and CRNAutomorphism are compared with brute-force automorphism enumeration. The id seam explores every legal reuse of a dead temporary's id (<=2 deviations).",
        "note": "Canonical graphs compared on structure + the configured attribute keys. After the D14 repair the implementation no longer calls id(), so the seam has no choice points on the current tree (reported in the evidence); it is kept so that a re-introduced identity-keyed cache is explored.",
    },
    "C06": {
        "ready": True, "engine": "E1",
        "technique": "bounded-exhaustive enumeration of all labelled host x pattern pairs, SubgraphSearchEngine vs. an independent backtracking monomorphism enumerator, all strategies and limit settings",
        "text": "All labelled hosts with <=3 atoms (2 elements x hcount {0,1}, 2 bond orders, disconnected included) x all labelled patterns with <=2 atoms (thorough: <=3), and class representatives with 4 (thorough: 5) atoms, are searched with strategies all/comp/bt, strict_cc_count on/off, two attribute selections, max_results, six threshold settings around the true match count, and the pre-filter; every answer is compared as a set (and for duplicates, input mutation, prefix order) with the oracle's monomorphisms and the component rule.",
        "note": "Limits are read weakly (see assumptions in the evidence) so that no behaviour the statement allows raises an alarm. Node attribute alphabets are small (4 labels).",
    },
    "C07": {
        "ready": True, "engine": "E1+E2",
        "technique": "bounded-exhaustive enumeration of ordered pairs of small labelled graphs through every matcher entry point and flag, vs. an independent backtracking enumerator; exhaustive query histories over engines sharing graph objects vs. fresh-cache answers",
        "text": "Class representatives (<=3 atoms; thorough <=4) x all labelled graphs (<=3 atoms) over 3 node labels and 2 bond orders, plus an hcount family, are queried through GraphMatcherEngine.isomorphic/get_mappings (filter on/off, max_mappings), SubgraphMatch.subgraph_isomorphism/is_subgraph and the graph_morphism twins (use_filter on/off, induced/monomorphism, disjoint and overlapping node ids); verdicts, validity and existence of embeddings, and filter-independence are compared with brute force. All query histories of depth 2 (thorough: 3) over four engines with different attribute selections sharing four colliding graph objects are executed; the last answer must equal the same call on a fresh cache and the definition.",
        "note": "Containment for get_mappings is induced sub-graph isomorphism (the implementation's notion). In-place mutation of graphs between queries is documented as unsupported and not explored.",
    },
    "C08": {
        "ready": True, "engine": "E1+E3(order)",
        "technique": "bounded-exhaustive enumeration of small labelled graphs x all node permutations x insertion orders x edge orientations x 4 back-ends; family-wide signature-collision search",
        "text": "Class representatives with <=3 atoms (4 node labels) and 4 atoms (thorough: 5, and the symmetric families up to Q3/K33) are presented under every node permutation, several (thorough: all) insertion orders and both edge orientations to the four back-ends: the canonical graph must be numbered exactly 1..N and be an attribute-preserving relabelling, the signature deterministic (repeat, copy); for the exact back-end every presentation must give the identical canonical graph and signature (both copies of the module) and equal SynGraph objects; signatures of all graphs of the family are grouped and any signature shared by non-isomorphic graphs is a collision.",
        "note": "Alphabet: 2 elements x hcount {0,1}, 2 bond orders, undirected graphs. Invariance is required of 'nauty' only, as the statement says.",
    },
    "C12": {
        "ready": True, "engine": "E1",
        "technique": "bounded-exhaustive enumeration of ordered pairs of small labelled graphs through both MCS matchers and every mode, vs. brute-force enumeration of all common induced subgraph mappings",
        "text": "Class representatives (<=3 atoms; thorough 4) x all labelled graphs (<=3 atoms) over 2 elements x 2 bond orders, in both argument orders, with disjoint node ids, under four label renderings (one selected node label; two selected labels with atoms equal in the first and different in the second; bond orders as numbers, as (before, after) tuples, as names): every returned mapping must be injective, label-preserving and induced both ways; in maximum mode all mappings have the brute-force maximum size and (without pruning) the result set equals the oracle's; the three direction accessors must be consistent and mutually inverse; a wildcard family exercises prune_wc (where pruning can flip which graph is smaller).",
        "note": "Small-scope (<=4 atoms). With prune_automorphisms only validity, maximality and non-emptiness are required.",
    },
    "C13": {
        "ready": True, "engine": "E1+E2",
        "technique": "exhaustive enumeration of all 720 list orders / arrival orders of six-item pools (corpus reaction centres, relabelled copies, near-misses), every batch size and several template lists; partition compared with an independent isomorphism oracle after every arrival",
        "text": "Pools of six reaction-centre graphs built from consecutive corpus centres (a centre, a relabelled copy, an order-changed and a charge-changed near-miss, two more centres) plus synthetic pools with tied elements/different charges are clustered by GraphCluster.fit and BatchCluster.fit under every list order, pre-grouping attribute none/invariant string, batch sizes {1,2,3,6,None}; incremental lib_check is run over every arrival order with the partition checked after each arrival; classification against given template lists (previous representatives, one dropped, ids shifted, ids with gaps) must use the representative's class or a fresh one.",
        "note": "VERIF_SEED rotates which 20 corpus windows the quick tier uses (thorough: all 98); each selected pool is explored exhaustively.",
    },
    "C01": {
        "ready": True, "engine": "E1",
        "technique": "bounded-exhaustive enumeration of synthetic reactant/product graph pairs and of fully enumerated renumbering / re-rooting / fragment-order / reversal families of every balanced mapped corpus reaction; statement-level oracle + RDKit",
        "text": "80k (thorough 294k) synthetic (G,H) pairs on a shared node set (9 node labels incl. aromatic/charged, orders {absent,1,2,1.5}, both edge orientations, one-sided nodes) and the 187 balanced, bijectively mapped corpus reactions under every member of the transformation families are encoded; the ITS must hold exactly the union of atoms and bonds with (before, after) labels and differences, its_decompose must return the two graphs, and its_to_rsmi must give a reaction with the same unmapped sides (RDKit canonical SMILES) whose ITS is identical / isomorphic to the original.",
        "note": "Corpus precondition (balanced, fully and bijectively mapped) is decided by the harness with RDKit. Stereo is not carried by the graph layer.",
    },
    "C02": {
        "ready": True, "engine": "E1",
        "technique": "bounded-exhaustive enumeration of synthetic ITS graphs (incl. explicit H-H bonds) and corpus ITS graphs x radii 0..3 x derived objects; own changed-bond set and BFS distances as oracle",
        "text": "For every synthetic ITS of C01, an H-H family, every balanced corpus reaction under its renumbering variants and every stored corpus ITS: the centre's bonds are exactly the changed bonds plus H-H bonds, its atoms their end points with the ITS labels, the centre of the centre is unchanged, renumbered inputs give isomorphic centres, extract_k(k) is exactly the induced subgraph on the atoms within k bonds (own BFS), the chain centre within context(1..3) within ITS holds, and the same holds for copies, relabelled copies and edited copies of an ITS that was queried before.",
        "note": "Radii 0..3. Derived-object layer guards against state cached on graph objects.",
    },
    "C10": {
        "ready": True, "engine": "E1",
        "technique": "exhaustive enumeration over a finite given set: every corpus molecule + vendored diverse molecules x re-rootings, every corpus reaction x renumbering variants x GML flag combinations; RDKit and an independent isomorphism enumerator as oracles",
        "text": "About 600 molecules (every distinct corpus fragment plus 65 vendored charged / aromatic / hetero-aromatic / zwitterionic / cumulated ones, incl. [H+] and H2) under 3 (thorough: all) re-rootings: SMILES->graph->SMILES keeps the RDKit canonical SMILES and hydrogen total; h_to_implicit(h_to_explicit(g)) restores the graph, neither direction changes molecule or hydrogen total, inputs are not mutated. Every corpus reaction with bijective maps under its renumbering variants: centre ITS->GML->ITS is isomorphic on element, charge and (before, after) orders for all flag combinations, and the three documented routes to a GML rule agree (core and full).",
        "note": "Finite given set (corpora + vendored list), not chemistry at large. 6 corpus reactions whose [H+] exists on one side only have no faithful rule representation and are skipped (counted in the evidence).",
    },
    "C09": {
        "ready": True, "engine": "E1",
        "technique": "exhaustive enumeration of the finite renumbering / re-rooting / fragment-order / centre-swap / fragment-edit families of every corpus reaction; RDKit-built mapped reaction graphs compared by an independent isomorphism enumerator",
        "text": "For each of the 346 parsable corpus reactions and every member of the transformation families: CanonRSMI (wl and nauty) must return a parsable reaction with the same unmapped sides whose RDKit-built mapped reaction graph is isomorphic to the input's, be a fixed point, and give one output for all numberings/atom orders when all reactant atoms are distinguishable; Standardize.fit must be idempotent and invariant; AAMValidator.smiles_check must accept every renumbering (RC and ITS mode) and reject every exchange of two centre atoms that differ on both sides; rsmi_balance_check must agree with atom-by-atom counts on the reaction and on every delete/duplicate-a-fragment and add-a-proton variant.",
        "note": "'Distinguishable' is read per back-end (exact: trivial automorphism group; 3-iteration refinement: pairwise different radius-3 neighbourhoods) so that the wl back-end is not asked for more than a refinement of that depth can deliver.",
    },
    "C03": {
        "ready": True, "engine": "E1",
        "technique": "exhaustive enumeration over the finite (template, substrate) product drawn from the corpora x direction x strategy; every output judged by RDKit (substrate, balance) and by an independent changed-bond-graph isomorphism",
        "text": "Every usable reaction (184 corpus reactions + 28 hand-written explicit-hydrogen ones: charged look-alike atoms, duplicated molecules, aromatic ring formation, unsymmetrical cycloaddition) is applied with its own template in every form between centre and full ITS (centre, radius 1/2, centre + first shell + one second-shell atom, full ITS, the reaction string), forwards and backwards, strategies all/comp/bt; the string form is also chained: forwards on two copies of the reactants, then backwards on each product mixture (and backwards first under another numbering); every centre template is applied to substrates of other reactions (quick 2, thorough 20 each) and 4 wildcard rules to 12 substrates: each emitted reaction must have the substrate unchanged on the correct side, conserve all elements incl. hydrogen and charge (for rules that are themselves conserving), and each emitted ITS graph must change exactly the template's bonds: its changed-bond graph (order change per bond, element, hydrogen and charge change per end atom, plus atoms that change charge off the changed bonds) is isomorphic to the one the harness computes from the template's source reaction with RDKit.",
        "note": "Finite given set (corpora). Explicit-H corpus uses the default H mode, implicit-H corpus implicit_temp. Pairs with no output are counted, not judged (that is C04's business).",
    },
    "C04": {
        "ready": True, "engine": "E1",
        "technique": "exhaustive enumeration of every precondition-passing corpus reaction x template kind x direction x strategy x renumbering / rewriting variants; RDKit-only standardised reaction must be among the outputs",
        "text": "For each usable reaction (corpus reactions that satisfy the well-formedness precondition, decided from the input with RDKit, plus 28 hand-written ones incl. duplicated molecules and aromatic ring formation), the centre and full-ITS template extracted from the reaction (as graph and as reaction string; full template also with the component-aware strategy) - and from each renumbered / re-rooted / fragment-reordered variant of it - is applied to the unmapped reactants (forwards) and products (backwards); the RDKit-canonical reaction must be among the canonicalised outputs.",
        "note": "Known findings D8 (multi-component centre patterns lose the reaction under some numberings / atom orders) and D20 are listed by reaction id, template kind and direction. Strategy comp is exempt when the substrate has spectator fragments (documented component-count rule).",
    },
    "C05": {
        "ready": True, "engine": "E1+E3(order)",
        "technique": "metamorphic exhaustive enumeration: every corpus pair x template renumberings x substrate rewritings x repeated calls x strategies; result sets compared",
        "text": "For every usable corpus reaction with its own centre template, forwards and backwards: the set of distinct (RDKit-canonical) reactions is computed under 8 (thorough: all) template renumberings, every substrate re-rooting and fragment order tried, the substrate handed over as a graph under other node numberings, repeated calls on the same and on a fresh reactor, and the three strategies; all sets must coincide, comp must be a subset of all, bt must equal comp when non-empty and all otherwise; the same invariance is required with automorphism=True; the template handed over as reaction string, ITS graph and SynRule object (centre and full, both directions) must give the same set.",
        "note": "Known finding D8 is listed by reaction id and direction (which of the renumbering / rewriting tags fires depends on the seed-dependent base numbering, so the tags are one finding per input).",
    },
    "C11": {
        "ready": True, "engine": "E1",
        "technique": "bounded-exhaustive enumeration of small labelled graphs (connected, disconnected, symmetric) vs. brute-force automorphisms; match lists through the de-duplicator; rule applications with pruning on vs. every raw match glued",
        "text": "(a) Automorphism counts and orbits of every connected class representative with <=4 atoms (thorough 5), every disconnected pair with <=5 (6) atoms incl. isomorphic components, and symmetric families equal brute-force enumeration per component; the WL estimate never splits a true orbit. (b) deduplicate_matches_with_anchor returns an order-preserving non-empty sub-list for every (host, pattern) pair with >=2 matches under exact, estimated, host and combined orbits. (c) For every corpus pair and for the synthetic two-component family X-Y + C=C (all X,Y, all numberings and component orders of the rule, six substrates), the set of distinct reactions with pruning equals the set obtained by gluing every raw match (pruning switched off by rebinding the module-level name).",
        "note": "Known finding D8 (clause c): corpus cases listed by reaction id, template kind, direction and flag; the synthetic family as a fully enumerated class with its expected failing count.",
    },
    "C14": {
        "ready": True, "engine": "E2+E3",
        "technique": "deviation-bounded stateless exploration of environment answers on the real batching code: id() reuse of dead objects, every cut of a task list into pickled batches; exhaustive batches over colliding substrates; real pools for conformance",
        "text": "Every batch of <=3 (thorough 4) entries over four colliding substrates (two reactive, one of them again in another spelling, one look-alike; exact repeats arise from sequences) x cache off / size 1 / 2 / 32768 x direction, followed by a second fit() with other rule objects, is run on the real BatchReactor under an id() seam that may hand a new object the id of any collected one (<=2 reuses): each entry's output must equal what the entry gives alone. Every cut of 4 (5) entries or 3 rules into pickled batches (joblib semantics) must give the same results; the validators and the balance check are run under every cut of their rows against per-row calls; batched clustering equals one-shot clustering (C13 pools); SynCRN.build(parallel=True, max_workers 1/2/3/default) with the pool replaced by an in-process ordered stand-in must equal the serial build for every seed subset (>=4 of 6 seeds; thorough >=2) x rule lists x repeats 2/3 x frontier on/off (rounds with up to 60 tasks); real loky pools and a real ProcessPoolExecutor must reproduce the serial results.",
        "note": "In W1/W2 the rule engine is replaced by a pure function of the content of (substrate, rule, direction) so that a wrongly served answer is visible and executions are cheap; W1r and W6 use the real engine. OS scheduling, crashes and time-outs are not explored.",
    },
}
