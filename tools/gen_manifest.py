#!/venv/bin/python
"""Regenerate MANIFEST.json from the table below (keeps it valid at all times)."""
import json, os, sys
sys.path.insert(0, os.path.dirname(os.path.dirname(os.path.abspath(__file__))))
from tools.manifest_table import CHECKS, ENGINES, NOTES

props = [json.loads(l)["id"] for l in open("/verif/properties.jsonl")]
BASE = json.load(open("/root/.vp/BASELINE.json"))["cmd"].replace("<file>", "/tmp/synkit_baseline.junit.xml") if os.path.exists("/root/.vp/BASELINE.json") else "cd /repo && /venv/bin/python -m pytest -ra -q -p no:cacheprovider --timeout=900 --continue-on-collection-errors"
m = {
    "version": 1,
    "setup_cmd": "cd /verif && /venv/bin/python -m compileall -q mc tools >/dev/null && /venv/bin/python -m mc.selftest",
    "hooks": {
        "guard": "SYNKIT_VERIF",
        "enable": "no source hooks: every seam (id, Parallel, ProcessPoolExecutor) is a module-level name that the harness rebinds from /verif/mc/seams.py; checks import /repo's working tree through the editable install in /venv",
        "baseline_off_cmd": "cd /repo && /venv/bin/python -m pytest -ra -q -p no:cacheprovider --timeout=900 --continue-on-collection-errors --junitxml=/verif/.baseline.junit.xml",
        "source_commits": [],
        "add_only": True,
    },
    "engines": ENGINES,
    "checks": [],
    "notes": NOTES,
    "not_applicable": [],
}
for pid in props:
    c = CHECKS.get(pid)
    if not c or not c.get("ready"):
        m["not_applicable"].append({"property_id": pid, "reason": (c or {}).get("reason", "check under construction in this session; not claimed until it runs clean on the unchanged tree")})
        continue
    m["checks"].append({
        "property_id": pid,
        "quick_cmd": f"./check {pid} --tier quick",
        "thorough_cmd": f"./check {pid} --tier thorough",
        "evidence_file": f"/verif/evidence/{pid}.json",
        "replay_cmd_template": f"./check {pid} --replay {{path}}",
        "engine": c["engine"],
        "level_claimed": {"category": "model_checking", "text": c["text"], "design_ref": f"DESIGN.md §4 {pid}"},
        "level_note": c["note"],
        "technique": c["technique"],
    })
json.dump(m, open("/verif/MANIFEST.json", "w"), indent=1)
print("claimed", [c["property_id"] for c in m["checks"]], "n/a", len(m["not_applicable"]))
