import json,sys,glob,os
pid=sys.argv[1]; suffix=sys.argv[2]  # e.g. c d
base=open('/verif/tools/seed_prompt.py').read()
import subprocess
txt=subprocess.run(['/venv/bin/python','/verif/tools/seed_prompt.py',pid],capture_output=True,text=True).stdout
a,b=suffix.split(',')
txt=txt.replace(f"{pid}_a",f"{pid}_{a}").replace(f"{pid}_b",f"{pid}_{b}")
used=[]
for d in sorted(glob.glob(f'/verif/seeded/{pid}_*')):
    m=json.load(open(d+'/meta.json')); used.append("- "+m.get('summary','')[:300].replace('\n',' '))
extra="\n\nIdeas that were ALREADY used by earlier rounds for this property (do not repeat them or close variants; find different mechanisms, different functions, different kinds of trigger):\n"+"\n".join(used)+"\n"
txt=txt.replace("\nFinal answer:", extra+"\nFinal answer:")
print(txt)
