import json,sys
pid=sys.argv[1]
for l in open('/verif/properties.jsonl'):
    p=json.loads(l)
    if p['id']==pid: break
wt=f"/tmp/seed_{pid}"
print(f"""You are helping to evaluate a verification effort by seeding realistic bugs. You work on a scratch git worktree of the open-source Python library TieuLongPhan/SynKit (cheminformatics toolkit: ITS graphs, subgraph matching, canonicalisation, reaction networks) located at {wt}. Work ONLY inside {wt}. Do NOT read or write anything under /repo or /verif (they are off limits), and do not create other worktrees.

Environment: no network. Python is /venv/bin/python. Always run it with the current directory = {wt} so that `import synkit` resolves to the worktree (verify once: `cd {wt} && /venv/bin/python -c "import synkit; print(synkit.__file__)"` must print a path under {wt}). The existing test suite is run with: `cd {wt} && /venv/bin/python -m pytest -q -p no:cacheprovider --timeout=900 2>&1 | tail -5` (581 tests, about 30-60 s; a few skips are normal; everything else must pass).

The semantic property ({pid}: {p['title']}):

\"\"\"{p['statement']}\"\"\"

Code that implements it is mainly in: {', '.join(p['anchors']['files'])}.

Your task: produce TWO independent, realistic source changes (call them {pid}_a and {pid}_b), each a small edit to files under {wt}/synkit/ (not to tests), of the kind a developer could plausibly introduce during a refactor, optimisation or "clean-up", such that for each change:
 1. the package still imports and the ENTIRE existing test suite still passes with the change applied (run it to be sure);
 2. the change BREAKS the property above for some inputs / operation sequences;
 3. it needs something specific in order to manifest - a particular multi-step sequence of operations, an unusual but legitimate input (symmetric, disconnected, tied labels, relabelled, a collision), a particular configuration flag, or two cooperating sites that each look fine alone - NOT something ordinary use would expose at once. Prefer subtle semantic bugs (shared mutable state, off-by-one in a bound, a dropped attribute in a comparison, wrong tie-break, stale cache, wrong direction for one case) over crashes. The two changes should be in different functions / of different nature. Do NOT simply revert or weaken a recent commit visible in `git log` (invent new bugs instead).
For each change write three files into {wt}/seed_out/<name>/ :
  - patch.diff : output of `git diff` (from the worktree root, applicable with `git apply patch.diff` on a clean tree);
  - demo.py : a small standalone script, run as `cd {wt} && /venv/bin/python seed_out/<name>/demo.py`, that exercises the public API and exits with status 0 when the property holds on its case(s) and status 1 (printing what went wrong) when it is violated. It must exit 1 with the patch applied and exit 0 on the clean tree. Make sure it imports synkit from the current directory (e.g. `sys.path.insert(0, os.getcwd())`).
  - meta.json : {{"property": "{pid}", "name": "<name>", "summary": "...what the change does...", "needs": "...what it takes to manifest...", "files_touched": [...], "tests_pass_with_patch": true, "demo_exit_with_patch": 1, "demo_exit_clean": 0}}
Procedure per change: edit -> run full test suite (must pass) -> run demo (must exit 1) -> `git diff > seed_out/<name>/patch.diff` -> `git checkout -- .` (revert) -> run demo on the clean tree (must exit 0). If a change makes some existing test fail, refine or pick another change; never edit tests. At the end the worktree must be clean except for the untracked seed_out/ directory. Note: it is possible that the clean tree already violates parts of the property for some inputs (the library has bugs); choose changes and demo cases where the clean tree behaves correctly.

Final answer: for each of the two changes, the name, the file/function touched, a 2-3 sentence description of the bug and what is needed to trigger it, and confirmation of the three verification results (tests pass with patch; demo exit 1 with patch; demo exit 0 clean).""")
