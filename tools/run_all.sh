#!/bin/bash
# usage: [VERIF_SEED=n] [PYTHONHASHSEED=n] tools/run_all.sh [tier]   -- runs every claimed check, prints one summary line each
tier=${1:-quick}
cd /verif
for p in $(/venv/bin/python -c "import json;print(' '.join(c['property_id'] for c in json.load(open('MANIFEST.json'))['checks']))"); do
  out=$(timeout 3000 ./check $p --tier $tier 2>&1); rc=$?
  echo "$p rc=$rc $(echo "$out" | grep -E "^C[0-9]+ tier" | tail -1) $(echo "$out" | grep -c '^VIOLATION') violation-lines $(echo "$out" | grep -c '^KNOWN-FINDING') known"
done
