#!/bin/bash
# validate MANIFEST.json and every evidence file against the schemas (uses the tooling venv's jsonschema)
python3-vt - <<'PY'
import json, glob, jsonschema, sys
ms = json.load(open('/root/.vp/MANIFEST.schema.json')); es = json.load(open('/root/.vp/EVIDENCE.schema.json'))
jsonschema.validate(json.load(open('/verif/MANIFEST.json')), ms)
bad = 0
for f in sorted(glob.glob('/verif/evidence/*.json')):
    try:
        jsonschema.validate(json.load(open(f)), es)
    except Exception as e:
        bad += 1; print('INVALID', f, str(e)[:300])
print('manifest ok; evidence files:', len(glob.glob('/verif/evidence/*.json')), 'invalid:', bad)
sys.exit(1 if bad else 0)
PY
