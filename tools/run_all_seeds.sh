#!/bin/bash
# runs every seeded change against the quick check of its property; /repo must be clean and idle
cd /verif
for d in seeded/*/; do
  n=$(basename $d); p=${n%%_*}
  ./tools/run_seed.sh $n $p
done
