#!/bin/bash
# runs every seeded change against the quick check of its property, each in a scratch worktree (does not touch /repo)
cd /verif
for d in seeded/*/; do
  n=$(basename $d); p=${n%%_*}
  ./tools/run_seed_wt.sh $n $p
done
