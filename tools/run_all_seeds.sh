#!/bin/bash
# runs every seeded change against the quick check of its property, each in a scratch worktree (does not touch /repo);
# a change whose meta.json has "caught_by" is run against that check instead; "obsolete_after_fix" entries are skipped
cd /verif
for d in seeded/*/; do
  n=$(basename $d); p=${n%%_*}
  [ -f $d/patch.diff ] || continue
  if grep -q '"obsolete_after_fix"' $d/meta.json; then echo "$n: obsolete after a repair of the library (see meta.json)"; continue; fi
  q=$(/venv/bin/python -c "import json,sys; print(json.load(open('$d/meta.json')).get('caught_by','$p'))" 2>/dev/null)
  ./tools/run_seed_wt.sh $n ${q:-$p}
done
