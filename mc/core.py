"""Core of the bounded-exhaustive exploration framework (DESIGN.md §2, §3).

A check module (mc/checks/cXX.py) exposes

    PROPERTY = "C15"
    def subchecks(tier, seed) -> list[Sub]

A ``Sub`` is one fully enumerated family: ``gen(tier, seed)`` yields JSON-able
cases in a deterministic order, ``check(case)`` runs the real code on one case
and compares it with the oracle, returning an ``Outcome``.  The driver shards
every family over worker processes by striding (case i goes to worker
i mod W), merges the counters, matches failures against
/verif/known_findings.json, writes replay files and the evidence file and
prints the VIOLATION / KNOWN-FINDING lines required by the interface.

Explicit-state searches (E2) use ``bfs_explore`` below instead of a flat case
stream; they return the same ``Acc``.
"""

from __future__ import annotations

import hashlib
import itertools
import json
import multiprocessing as mp
import os
import subprocess
import sys
import time
import traceback
from collections import Counter
from dataclasses import dataclass, field
from typing import Any, Callable, Dict, Iterable, List, Optional, Tuple

VERIF = os.path.dirname(os.path.dirname(os.path.abspath(__file__)))
REPO = os.environ.get("SYNKIT_REPO", "/repo")
NPROC = int(os.environ.get("VERIF_NPROC", "16"))
MAX_FAILING_CASES = 400  # per worker shard and sub-check
MAX_DETAIL = 4  # violations kept with full detail per sub-check/tag and worker


# --------------------------------------------------------------------------
# environment hygiene
# --------------------------------------------------------------------------
def quiet():
    import logging
    import warnings

    logging.disable(logging.CRITICAL)
    warnings.filterwarnings("ignore")
    try:
        from rdkit import RDLogger

        RDLogger.DisableLog("rdApp.*")
    except Exception:
        pass


def assert_repo_tree():
    """The checks must exercise /repo's working tree (editable install)."""
    import synkit

    path = os.path.realpath(synkit.__file__)
    if not path.startswith(os.path.realpath(REPO) + os.sep):
        print(f"HARNESS-ERROR: synkit imported from {path}, expected {REPO}")
        sys.exit(2)


def repo_head() -> Dict[str, Any]:
    try:
        head = subprocess.run(
            ["git", "-C", REPO, "rev-parse", "HEAD"], capture_output=True, text=True
        ).stdout.strip()
        dirty = bool(
            subprocess.run(
                ["git", "-C", REPO, "status", "--porcelain", "--untracked-files=no"],
                capture_output=True,
                text=True,
            ).stdout.strip()
        )
        return {"head": head, "dirty": dirty}
    except Exception:
        return {"head": "unknown", "dirty": None}


def digest(obj: Any) -> str:
    s = json.dumps(obj, sort_keys=True, default=str)
    return hashlib.sha1(s.encode()).hexdigest()[:12]


# --------------------------------------------------------------------------
# outcome of one case, accumulator over many
# --------------------------------------------------------------------------
@dataclass
class Fail:
    tag: str  # which clause of the property failed
    observed: str
    expected: str = ""
    key_extra: str = ""  # appended to the case key (e.g. a configuration)
    key_class: str = ""  # if set, replaces the case key: a *class* of inputs named by a predicate on the input


@dataclass
class Outcome:
    nontrivial: bool = True
    outcome: str = ""  # bucket label: distinct observed outcomes are counted
    fails: List[Fail] = field(default_factory=list)
    transitions: int = 1  # implementation calls compared with the oracle
    skipped: Optional[str] = None  # reason; case counted but not judged


@dataclass
class Sub:
    name: str
    gen: Callable[[str, int], Iterable[Any]]
    check: Callable[[Any], Outcome]
    key: Callable[[Any], str] = lambda case: digest(case)
    rule: str = ""
    exhaustive: bool = True
    setup: Optional[Callable[[], None]] = None  # run once per worker


class Acc:
    def __init__(self):
        self.evaluations = 0
        self.states = 0
        self.transitions = 0
        self.nontrivial = 0
        self.outcomes: Counter = Counter()
        self.skipped: Counter = Counter()
        self.per_sub: Dict[str, Dict[str, int]] = {}
        self.samples: List[Any] = []
        self.violations: List[Dict[str, Any]] = []  # compact + maybe detail
        self.extra: Dict[str, Any] = {}
        self.caps: List[str] = []

    def sub(self, name):
        return self.per_sub.setdefault(
            name, {"cases": 0, "nontrivial": 0, "transitions": 0, "violations": 0}
        )

    def add_case(self, subname: str, key: str, case: Any, out: Outcome, n_detail: Dict[str, int]):
        s = self.sub(subname)
        self.evaluations += 1
        self.states += 1
        s["cases"] += 1
        if out.skipped:
            self.skipped[f"{subname}:{out.skipped}"] += 1
            return
        self.transitions += out.transitions
        s["transitions"] += out.transitions
        if out.nontrivial:
            self.nontrivial += 1
            s["nontrivial"] += 1
        if out.outcome != "":
            self.outcomes[f"{subname}:{out.outcome}"] += 1
        for f in out.fails:
            s["violations"] += 1
            v = {
                "sub": f"{subname}/{f.tag}",
                "key": f.key_class or (key + (("|" + f.key_extra) if f.key_extra else "")),
                "observed": f.observed,
                "expected": f.expected,
            }
            if f.key_class:
                v["case_key"] = key
            if n_detail.get(v["sub"], 0) < MAX_DETAIL:
                v["case"] = case
                v["subcheck"] = subname
                n_detail[v["sub"]] = n_detail.get(v["sub"], 0) + 1
            self.violations.append(v)

    def merge(self, o: "Acc"):
        self.evaluations += o.evaluations
        self.states += o.states
        self.transitions += o.transitions
        self.nontrivial += o.nontrivial
        self.outcomes.update(o.outcomes)
        self.skipped.update(o.skipped)
        for k, d in o.per_sub.items():
            s = self.sub(k)
            for kk, vv in d.items():
                s[kk] = s.get(kk, 0) + vv
        for smp in o.samples:
            if len(self.samples) < 12:
                self.samples.append(smp)
        self.violations.extend(o.violations)
        self.caps.extend(o.caps)
        for k, v in o.extra.items():
            if isinstance(v, (int, float)) and isinstance(self.extra.get(k, 0), (int, float)):
                self.extra[k] = self.extra.get(k, 0) + v
            else:
                self.extra.setdefault(k, v)


# --------------------------------------------------------------------------
# sharded execution of flat case streams
# --------------------------------------------------------------------------
_SUBS: List[Sub] = []
_TIER = "quick"
_SEED = 0


def _worker(args) -> Acc:
    sub_idx, shard, nshards = args
    quiet()
    sub = _SUBS[sub_idx]
    acc = Acc()
    if sub.setup:
        sub.setup()
    n_detail: Dict[str, int] = {}
    n_samples = 0
    n_failing = 0
    stream = ((i, c) for i, c in enumerate(sub.gen(_TIER, _SEED)) if i % nshards == shard)
    if os.environ.get("VERIF_ORDER") == "reversed":
        # order seam: the same cases, last first (state left behind by earlier cases then meets other successors)
        stream = iter(list(stream)[::-1])
    for i, case in stream:
        try:
            out = sub.check(case)
        except Exception as e:  # harness or implementation raised unexpectedly
            tb = traceback.format_exc(limit=6)
            out = Outcome(
                fails=[Fail("exception", f"{type(e).__name__}: {str(e)[:200]}", "no exception")]
            )
            acc.extra.setdefault("first_traceback", tb)
        key = sub.key(case)
        acc.add_case(sub.name, key, case, out, n_detail)
        if any(not f.key_class for f in out.fails):
            n_failing += 1
            if n_failing >= MAX_FAILING_CASES:
                # a broken tree can make every case slow; the verdict is already decided
                acc.caps.append(f"{sub.name}: shard {shard} stopped after {n_failing} violating cases")
                break
        if n_samples < 2 and shard == 0 and not out.skipped:
            acc.samples.append({"sub": sub.name, "key": key, "case": _clip(case), "outcome": out.outcome})
            n_samples += 1
    return acc


def _clip(obj, limit=1500):
    s = json.dumps(obj, default=str)
    if len(s) <= limit:
        return obj
    return s[:limit] + "...(clipped)"


def run_subs(subs: List[Sub], tier: str, seed: int, nproc: int = NPROC) -> Acc:
    """Run every sub-check's full enumeration, sharded over processes."""
    global _SUBS, _TIER, _SEED
    _SUBS, _TIER, _SEED = subs, tier, seed
    tasks = [(si, sh, nproc) for si in range(len(subs)) for sh in range(nproc)]
    total = Acc()
    if nproc <= 1:
        for t in tasks:
            total.merge(_worker(t))
        return total
    ctx = mp.get_context("fork")
    with ctx.Pool(nproc) as pool:
        for acc in pool.imap_unordered(_worker, tasks, chunksize=1):
            total.merge(acc)
    return total


def pmap(fn: Callable, items: List[Any], nproc: int = NPROC, chunksize: int = 1) -> List[Any]:
    """Ordered parallel map with fork (fn must be a module-level function)."""
    if nproc <= 1 or len(items) <= 1:
        return [fn(x) for x in items]
    ctx = mp.get_context("fork")
    with ctx.Pool(min(nproc, len(items))) as pool:
        return pool.map(fn, items, chunksize=chunksize)


# --------------------------------------------------------------------------
# known findings
# --------------------------------------------------------------------------
def load_known(prop: str) -> List[Dict[str, Any]]:
    path = os.path.join(VERIF, "known_findings.json")
    if not os.path.exists(path):
        return []
    data = json.load(open(path))
    return [f for f in data.get("findings", []) if f.get("property") == prop]


def match_known(v: Dict[str, Any], known: List[Dict[str, Any]]) -> Optional[Dict[str, Any]]:
    for k in known:
        if "subs" in k:  # one input whose failure may surface under several tags of the same sub-check
            if v["sub"] not in k["subs"]:
                continue
        elif k.get("sub") != v["sub"]:
            continue
        if "key_prefix" in k:
            if not v["key"].startswith(k["key_prefix"]):
                continue
        elif k.get("key") != v["key"]:
            continue
        if "observed" in k and k["observed"] != v["observed"]:
            continue
        return k
    return None


# --------------------------------------------------------------------------
# finishing: replays, evidence, exit status
# --------------------------------------------------------------------------
def finish(
    prop: str,
    tier: str,
    seed: int,
    acc: Acc,
    t0: float,
    rule: str,
    exhaustive: bool,
    assumptions: List[str],
    level: str = "model_checking",
    extra_cov: Optional[Dict[str, Any]] = None,
) -> int:
    known = load_known(prop)
    new, listed = [], {}
    listed_n: Counter = Counter()
    for v in acc.violations:
        k = match_known(v, known)
        if k is not None:
            kk = k.get("key") or k.get("key_prefix")
            listed.setdefault((v["sub"], kk), (k, v))
            listed_n[(v["sub"], kk)] += 1
        else:
            new.append(v)
    for (sub, key), (k, v) in sorted(listed.items()):
        print(f"KNOWN-FINDING: property={prop} {sub} {key}: {k.get('what', v['observed'])} [{listed_n[(sub, key)]} case(s) this run]")
        if "expect_count" in k and listed_n[(sub, key)] != k["expect_count"]:
            # the listed class is a fully enumerated, tier-independent family: its failing set must not change
            new.append({"sub": sub + "/known_class_changed", "key": key, "observed": f"{listed_n[(sub, key)]} failing cases", "expected": f"{k['expect_count']} (as recorded for the unchanged tree)",
                        "case": {"note": "the number of failing members of a listed class changed"}, "subcheck": sub.split("/")[0]})

    # deterministic order, write replays for the first few new violations
    new.sort(key=lambda v: (v["sub"], v["key"]))
    rdir = os.path.join(VERIF, "replays", prop)
    if os.environ.get("VERIF_EVIDENCE_OUT"):  # side run (seeded change, other hash seed): leave the main run's replay files alone
        rdir = os.environ["VERIF_EVIDENCE_OUT"] + ".replays"
    if os.path.isdir(rdir):  # replay files of earlier runs are stale
        for fn in os.listdir(rdir):
            try:
                os.remove(os.path.join(rdir, fn))
            except OSError:
                pass
    printed = 0
    by_sub = Counter()
    for v in new:
        by_sub[v["sub"]] += 1
    seen_sub = Counter()
    for v in new:
        seen_sub[v["sub"]] += 1
        if seen_sub[v["sub"]] > 3 or "case" not in v:
            continue
        os.makedirs(rdir, exist_ok=True)
        path = os.path.join(rdir, f"{v['sub'].replace('/', '_')}-{digest(v['key'])}.json")
        with open(path, "w") as fh:
            json.dump({"property": prop, **v}, fh, indent=1, default=str)
        print(f"VIOLATION property={prop} replay={path}")
        print(f"  sub={v['sub']} key={v['key'][:200]}")
        print(f"  observed={str(v['observed'])[:300]}")
        print(f"  expected={str(v['expected'])[:300]}")
        printed += 1
    if new and not printed:
        # no detailed case survived the per-worker cap: still must report
        v = new[0]
        os.makedirs(rdir, exist_ok=True)
        path = os.path.join(rdir, f"{v['sub'].replace('/', '_')}-{digest(v['key'])}.json")
        with open(path, "w") as fh:
            json.dump({"property": prop, **v}, fh, indent=1, default=str)
        print(f"VIOLATION property={prop} replay={path}")
    if new:
        print(f"violations by sub-check: {dict(by_sub)}")
        if "first_traceback" in acc.extra:
            print(acc.extra["first_traceback"])

    wall = time.time() - t0
    cov = {
        "states": max(acc.states, 1),
        "transitions": max(acc.transitions, 1),
        "traces_validated_against_impl": acc.transitions,
        "evaluations": acc.evaluations,
        "distinct_nontrivial": acc.nontrivial,
        "distinct_outcomes": len(acc.outcomes),
        "outcome_histogram": dict(acc.outcomes.most_common(25)),
        "rule": rule,
        "samples": acc.samples[:12] or [{"note": "no sample recorded"}],
        "exhaustive": bool(exhaustive and not acc.caps),
        "caps_hit": acc.caps,
        "per_subcheck": acc.per_sub,
        "skipped_by_reason": dict(acc.skipped),
        "known_findings_seen": [f"{s} {k} x{listed_n[(s, k)]}" for (s, k) in sorted(listed)],
        "new_violations_by_subcheck": dict(by_sub),
        "new_violation_keys": sorted({f"{v['sub']} :: {v['key']}" for v in new})[:600],
        "repo": repo_head(),
        "nproc": NPROC,
        "pythonhashseed": os.environ.get("PYTHONHASHSEED", ""),
    }
    for k, v in acc.extra.items():
        if k != "first_traceback":
            cov.setdefault(k, v)
    if extra_cov:
        cov.update(extra_cov)
    if len(acc.outcomes) == 1 and acc.evaluations > 50:
        cov["vacuity_warning"] = "one distinct outcome from many executions"
    ev = {
        "property_id": prop,
        "tier": tier,
        "seed": seed,
        "level": level,
        "coverage": cov,
        "assumptions": assumptions,
        "wall_s": round(wall, 2),
        "violations": len(new),
    }
    os.makedirs(os.path.join(VERIF, "evidence"), exist_ok=True)
    ev_path = os.environ.get("VERIF_EVIDENCE_OUT") or os.path.join(VERIF, "evidence", f"{prop}.json")
    with open(ev_path, "w") as fh:
        json.dump(ev, fh, indent=1, default=str)
    print(
        f"{prop} tier={tier} seed={seed} states={acc.states} transitions={acc.transitions} "
        f"nontrivial={acc.nontrivial} outcomes={len(acc.outcomes)} known={len(listed)} "
        f"new_violations={len(new)} wall={wall:.1f}s"
    )
    return 1 if new else 0


# --------------------------------------------------------------------------
# E2: level-synchronous explicit-state search over operation histories
# --------------------------------------------------------------------------
def bfs_explore(
    expand: Callable[[Tuple], List[Tuple[Any, str, List[Fail], bool]]],
    depth: int,
    sub: str,
    nproc: int = NPROC,
    max_states: Optional[int] = None,
) -> Acc:
    """``expand(hist)`` (module-level, picklable by name) replays ``hist`` on a
    fresh real object and returns, for every enabled operation ``op``, a tuple
    ``(op, canonical_state_key, fails, nontrivial)``.  States are merged on the
    canonical key; the first history reaching a state represents it."""
    acc = Acc()
    seen = {"<init>"}
    frontier: List[Tuple] = [()]
    n_detail: Dict[str, int] = {}
    for d in range(depth):
        results = pmap(expand, frontier, nproc=nproc, chunksize=max(1, len(frontier) // (nproc * 8)))
        nxt = []
        for hist, res in zip(frontier, results):
            for op, key, fails, nontrivial in res:
                acc.evaluations += 1
                acc.transitions += 1
                s = acc.sub(sub)
                s["cases"] += 1
                s["transitions"] += 1
                if nontrivial:
                    s["nontrivial"] += 1
                for f in fails:
                    s["violations"] += 1
                    v = {
                        "sub": f"{sub}/{f.tag}",
                        "key": json.dumps(list(hist) + [op], default=str) + (("|" + f.key_extra) if f.key_extra else ""),
                        "observed": f.observed,
                        "expected": f.expected,
                    }
                    if n_detail.get(v["sub"], 0) < 8:
                        v["case"] = {"history": list(hist) + [op]}
                        v["subcheck"] = sub
                        n_detail[v["sub"]] = n_detail.get(v["sub"], 0) + 1
                    acc.violations.append(v)
                if key is None:  # operation refused (documented exception): no new state
                    continue
                if key not in seen:
                    seen.add(key)
                    acc.nontrivial += 1
                    nxt.append(tuple(hist) + (op,))
                    if len(acc.samples) < 6 and d >= 1:
                        acc.samples.append({"sub": sub, "history": list(hist) + [op]})
        acc.extra[f"{sub}_depth_{d + 1}_new_states"] = len(nxt)
        frontier = nxt
        if max_states and len(seen) > max_states:
            acc.caps.append(f"{sub}: state cap {max_states} reached at depth {d + 1}")
            break
    acc.states = len(seen)
    acc.extra[f"{sub}_max_depth"] = depth
    return acc
