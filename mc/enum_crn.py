"""Bounded-exhaustive enumeration of small reaction networks (DESIGN §2.2)."""
from __future__ import annotations

import itertools
from typing import Iterator, List, Sequence, Tuple

SPECIES = ["A", "B", "C", "D", "E", "F", "G"]


def reactions(s: int, cmax: int, allow_empty_side=True, allow_trivial=True) -> List[Tuple[Tuple[int, ...], Tuple[int, ...]]]:
    """All (lhs, rhs) coefficient-vector pairs in {0..cmax}^s, not both zero."""
    vecs = list(itertools.product(range(cmax + 1), repeat=s))
    out = []
    for l in vecs:
        for r in vecs:
            if not any(l) and not any(r):
                continue
            if not allow_empty_side and (not any(l) or not any(r)):
                continue
            if not allow_trivial and l == r:
                continue
            out.append((l, r))
    return out


def networks(s: int, rmax: int, cmax: int, rmin: int = 1, quotient: bool = False, **kw) -> Iterator[Tuple]:
    """All multisets of rmin..rmax reactions.  With ``quotient`` only the
    lexicographically least member of each species-permutation class."""
    rx = reactions(s, cmax, **kw)
    perms = list(itertools.permutations(range(s)))
    for r in range(rmin, rmax + 1):
        for combo in itertools.combinations_with_replacement(range(len(rx)), r):
            net = tuple(rx[i] for i in combo)
            if quotient and not _is_least(net, perms):
                continue
            yield net


def _perm_net(net, p):
    return tuple(sorted((tuple(l[p[i]] for i in range(len(p))), tuple(r[p[i]] for i in range(len(p)))) for l, r in net))


def _is_least(net, perms):
    base = tuple(sorted(net))
    for p in perms[1:]:
        if _perm_net(net, p) < base:
            return False
    return True


def side_dict(vec, names=SPECIES):
    return {names[i]: c for i, c in enumerate(vec) if c}


def side_str(vec, names=SPECIES):
    parts = [(f"{c}{names[i]}" if c > 1 else names[i]) for i, c in enumerate(vec) if c]
    return "+".join(parts) if parts else "∅"


def net_str(net, names=SPECIES):
    return "; ".join(f"{side_str(l, names)}>>{side_str(r, names)}" for l, r in net)


def build_hypergraph(net, names=SPECIES, rules=None, ids=None, order=None):
    from synkit.CRN.Hypergraph.hypergraph import CRNHyperGraph

    H = CRNHyperGraph()
    idx = list(order) if order is not None else range(len(net))
    for k in idx:
        l, r = net[k]
        H.add_rxn(side_dict(l, names), side_dict(r, names), rule=(rules[k] if rules else "r"), edge_id=(ids[k] if ids else None))
    return H


def parse_net(s: str):
    """inverse of net_str for replay files"""
    import re

    def side(t):
        v = [0] * len(SPECIES)
        t = t.strip()
        if t and t != "∅":
            for part in t.split("+"):
                m = re.match(r"^(\d*)([A-Z])$", part.strip())
                v[SPECIES.index(m.group(2))] += int(m.group(1) or 1)
        return v

    net = []
    for rx in s.split(";"):
        l, r = rx.split(">>")
        net.append((side(l), side(r)))
    n = max((i + 1 for l, r in net for i, c in enumerate([a + b for a, b in zip(l, r)]) if c), default=1)
    return tuple((tuple(l[:n]), tuple(r[:n])) for l, r in net)
