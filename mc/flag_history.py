"""Helper run in a fresh interpreter: answers of AAMValidator.smiles_check for a list of (mapped, truth) pairs under a
given order of (method, ignore_aromaticity) settings.  Usage: python -m mc.flag_history '<json order>'"""
import json
import sys

PAIRS = [
    # aromatic ring partially reduced; the two members differ only in where the remaining double bonds sit
    ("[CH3:1][c:2]1[cH:3][cH:4][cH:5][cH:6][cH:7]1.[H:8][H:9]>>[CH3:1][C:2]1=[CH:3][CH:4]([H:8])[CH:5]([H:9])[CH:6]=[CH:7]1",
     "[CH3:1][c:2]1[cH:3][cH:4][cH:5][cH:6][cH:7]1.[H:8][H:9]>>[CH3:1][C:2]1=[CH:3][CH:4]([H:8])[CH:5]=[CH:6][CH:7]1[H:9]"),
    ("[F:1][c:2]1[cH:3][cH:4][cH:5][cH:6][c:7]1[CH3:10].[H:8][H:9]>>[F:1][C:2]1=[CH:3][CH:4]([H:8])[CH:5]([H:9])[CH:6]=[C:7]1[CH3:10]",
     "[F:1][c:2]1[cH:3][cH:4][cH:5][cH:6][c:7]1[CH3:10].[H:8][H:9]>>[F:1][C:2]1=[CH:3][CH:4]([H:8])[CH:5]=[CH:6][C:7]1([CH3:10])[H:9]"),
    ("[CH3:1][C:2](=[O:3])[OH:4].[CH3:5][OH:6]>>[CH3:1][C:2](=[O:3])[O:6][CH3:5].[OH2:4]",
     "[CH3:5][C:1](=[O:2])[OH:3].[CH3:6][OH:4]>>[CH3:5][C:1](=[O:2])[O:4][CH3:6].[OH2:3]"),
    ("[CH3:1][C:2](=[O:3])[OH:4].[CH3:5][OH:6]>>[CH3:1][C:2](=[O:3])[O:6][CH3:5].[OH2:4]",
     "[CH3:1][C:2](=[O:3])[OH:4].[CH3:5][OH:6]>>[CH3:1][C:2](=[O:3])[O:4][CH3:5].[OH2:6]"),
    ("[cH:1]1[cH:2][cH:3][cH:4][cH:5][c:6]1[Br:7].[OH-:8]>>[cH:1]1[cH:2][cH:3][cH:4][cH:5][c:6]1[OH:8].[Br-:7]",
     "[cH:1]1[cH:2][cH:3][cH:4][cH:5][c:6]1[Br:7].[OH-:8]>>[cH:1]1[cH:2][cH:3][cH:4][cH:5][c:6]1[OH:8].[Br-:7]"),
]


def main():
    import logging
    import warnings

    logging.disable(logging.CRITICAL)
    warnings.filterwarnings("ignore")
    from rdkit import RDLogger

    RDLogger.DisableLog("rdApp.*")
    from synkit.Chem.Reaction.aam_validator import AAMValidator

    order = json.loads(sys.argv[1])
    out = {}
    for method, flag in order:
        out[f"{method},{flag}"] = [AAMValidator.smiles_check(a, b, check_method=method, ignore_aromaticity=flag) for a, b in PAIRS]
    print("RESULT " + json.dumps(out))


if __name__ == "__main__":
    main()
