"""Reference model of the reaction-network store: dict id -> (rule, lhs, rhs).

Everything else (species set, indices, matrix) is derived from it.
"""
from collections import Counter


class RefStore:
    def __init__(self):
        self.rx = {}  # id -> (rule, Counter lhs, Counter rhs)
        self.ever_kept = set()  # species the caller chose to keep (prune_orphans=False)
        self.mol = {}

    def clone(self):
        r = RefStore()
        r.rx = {k: (v[0], Counter(v[1]), Counter(v[2])) for k, v in self.rx.items()}
        r.ever_kept = set(self.ever_kept)
        r.mol = dict(self.mol)
        return r

    def add(self, eid, rule, lhs, rhs):
        self.rx[eid] = (rule, Counter(lhs), Counter(rhs))

    def occurring(self):
        s = set()
        for _, l, r in self.rx.values():
            s |= set(l) | set(r)
        return s

    def remove_rxn(self, eid):
        del self.rx[eid]

    def remove_species(self, sp, prune):
        for eid in list(self.rx):
            rule, l, r = self.rx[eid]
            l.pop(sp, None)
            r.pop(sp, None)
            if not l and not r:
                del self.rx[eid]
        if not prune:
            self.ever_kept.add(sp)

    def producers(self, sp):
        return {eid for eid, (_, l, r) in self.rx.items() if sp in r}

    def consumers(self, sp):
        return {eid for eid, (_, l, r) in self.rx.items() if sp in l}

    def canon(self):
        return tuple(
            sorted((eid, rule, tuple(sorted(l.items())), tuple(sorted(r.items()))) for eid, (rule, l, r) in self.rx.items())
        )
