"""Exact linear algebra over Q and certificate-backed positivity decisions."""
from __future__ import annotations

import itertools
from fractions import Fraction
from typing import List, Optional, Sequence, Tuple

import numpy as np


def rref(M: Sequence[Sequence[int]]):
    A = [[Fraction(x) for x in row] for row in M]
    nr = len(A)
    nc = len(A[0]) if nr else 0
    piv = []
    r = 0
    for c in range(nc):
        p = None
        for i in range(r, nr):
            if A[i][c] != 0:
                p = i
                break
        if p is None:
            continue
        A[r], A[p] = A[p], A[r]
        pv = A[r][c]
        A[r] = [x / pv for x in A[r]]
        for i in range(nr):
            if i != r and A[i][c] != 0:
                f = A[i][c]
                A[i] = [a - f * b for a, b in zip(A[i], A[r])]
        piv.append(c)
        r += 1
        if r == nr:
            break
    return A, piv


def rank(M) -> int:
    if not M or not M[0]:
        return 0
    return len(rref(M)[1])


def kernel(M, ncols=None) -> List[List[Fraction]]:
    """Basis of {x : M x = 0} (right kernel), exact."""
    nr = len(M)
    nc = len(M[0]) if nr else (ncols or 0)
    if nr == 0:
        return [[Fraction(int(i == j)) for i in range(nc)] for j in range(nc)]
    A, piv = rref(M)
    free = [c for c in range(nc) if c not in piv]
    basis = []
    for f in free:
        x = [Fraction(0)] * nc
        x[f] = Fraction(1)
        for r, pc in enumerate(piv):
            x[pc] = -A[r][f]
        basis.append(x)
    return basis


def transpose(M):
    return [list(r) for r in zip(*M)] if M else []


def matvec(M, x):
    return [sum(a * b for a, b in zip(row, x)) for row in M]


_CAND = {}


def _cands(n, lo, hi):
    key = (n, lo, hi)
    if key not in _CAND:
        _CAND[key] = np.array(list(itertools.product(range(lo, hi + 1), repeat=n)), dtype=np.int64)
    return _CAND[key]


def positive_kernel_decision(A: Sequence[Sequence[int]], ncols: int) -> Tuple[Optional[bool], Optional[list]]:
    """Decide  EXISTS x > 0 : A x = 0  for an integer matrix A (nrows x ncols).

    Returns (True, x) with a strictly positive integer kernel vector, or
    (False, y) with a Stiemke certificate y: y^T A >= 0 and != 0 (which excludes
    any positive kernel vector, since then y^T A x > 0 = 0), or (None, None)
    when neither certificate was found within the search bounds.  Both
    certificates are verified in exact integer arithmetic."""
    nrows = len(A)
    if ncols == 0:
        return True, []
    An = np.array(A, dtype=np.int64).reshape(nrows, ncols)
    if nrows == 0 or not An.any():
        return True, [1] * ncols
    # 1) positive integer kernel vector, small entries
    for hi in ((6, 14) if ncols <= 3 else (4, 7) if ncols == 4 else (3,)):
        if (hi) ** ncols > 300000:
            continue
        X = _cands(ncols, 1, hi)
        R = X @ An.T
        ok = ~R.any(axis=1)
        if ok.any():
            x = X[np.argmax(ok)].tolist()
            assert all(v > 0 for v in x) and not any(matvec(A, x))
            return True, x
    # 2) Stiemke alternative  y^T A >= 0, != 0
    for hi in ((4, 9) if nrows <= 3 else (3, 5) if nrows == 4 else (2,)):
        if (2 * hi + 1) ** nrows > 300000:
            continue
        Y = _cands(nrows, -hi, hi)
        R = Y @ An
        ok = (R >= 0).all(axis=1) & R.any(axis=1)
        if ok.any():
            y = Y[np.argmax(ok)].tolist()
            ya = matvec(transpose(A), y)
            assert all(v >= 0 for v in ya) and any(ya)
            return False, y
    return _lp_certificates(A, ncols)


def _lp_certificates(A, ncols):
    """Larger instances: let a floating LP *propose* a certificate, rationalise
    it, and accept it only after exact verification."""
    try:
        from scipy.optimize import linprog
    except Exception:
        return None, None
    nrows = len(A)
    An = np.array(A, dtype=float).reshape(nrows, ncols)
    # positive x: A x = 0, x >= 1 ; minimise sum x
    try:
        res = linprog(np.ones(ncols), A_eq=An, b_eq=np.zeros(nrows), bounds=[(1, None)] * ncols, method="highs")
        if res.success:
            for den in (1, 2, 3, 4, 6, 12, 60, 420, 2520):
                x = [Fraction(float(v)).limit_denominator(den) for v in res.x]
                if all(v > 0 for v in x) and not any(matvec(A, x)):
                    return True, [str(v) for v in x]
    except Exception:
        pass
    # alternative: y^T A >= 0, sum(y^T A) = 1, y in [-B,B]
    try:
        c = np.zeros(nrows)
        res = linprog(c, A_ub=-An.T, b_ub=np.zeros(ncols), A_eq=[An.sum(axis=1)], b_eq=[1.0], bounds=[(-50, 50)] * nrows, method="highs")
        if res.success:
            for den in (1, 2, 3, 4, 6, 12, 60, 420, 2520):
                y = [Fraction(float(v)).limit_denominator(den) for v in res.x]
                ya = matvec(transpose(A), y)
                if all(v >= 0 for v in ya) and any(ya):
                    return False, [str(v) for v in y]
    except Exception:
        pass
    return None, None


def selftest():
    assert rank([[1, 2], [2, 4]]) == 1 and rank([[0, 0]]) == 0 and rank([[1, 0], [0, 1]]) == 2
    k = kernel([[1, -1, 0], [0, 1, -1]])
    assert len(k) == 1 and k[0] == [1, 1, 1]
    assert positive_kernel_decision([[1, -1]], 2)[0] is True
    assert positive_kernel_decision([[1, 1]], 2)[0] is False
    assert positive_kernel_decision([[1, -1, 0], [0, 1, -2]], 3) == (True, [2, 2, 1])
    assert positive_kernel_decision([[0, 0]], 2)[0] is True
    # C+B>>F+A : S^T = [-1(B) -1(C) +1(F) +1(A)] one row, 4 cols: positive kernel exists
    assert positive_kernel_decision([[1, -1, -1, 1]], 4)[0] is True
