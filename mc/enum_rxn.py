"""Finite transformation families of a mapped reaction SMILES (DESIGN §2.2) and corpus access.

Everything here uses RDKit only (the trusted environment), never SynKit."""
from __future__ import annotations

import itertools
import json
import os
from typing import Dict, Iterator, List, Optional, Tuple

from rdkit import Chem
from rdkit.Chem import rdMolDescriptors

REPO = os.environ.get("SYNKIT_REPO", "/repo")
_PARAMS = Chem.SmilesParserParams()
_PARAMS.removeHs = False


def mol(smi: str):
    m = Chem.MolFromSmiles(smi, _PARAMS)
    return m


def side_maps(m) -> List[int]:
    return [a.GetAtomMapNum() for a in m.GetAtoms()]


def split(rsmi: str) -> Tuple[str, str]:
    r, p = rsmi.split(">>")
    return r, p


def parse(rsmi: str):
    r, p = split(rsmi)
    mr, mp = mol(r), mol(p)
    if mr is None or mp is None:
        return None
    return mr, mp


# ---------------------------------------------------------------------------- preconditions (decided from the input)
def formula_with_h(m) -> Tuple[Tuple[Tuple[str, int], ...], int]:
    cnt: Dict[str, int] = {}
    ch = 0
    for a in m.GetAtoms():
        cnt[a.GetSymbol()] = cnt.get(a.GetSymbol(), 0) + 1
        h = a.GetTotalNumHs()
        if h:
            cnt["H"] = cnt.get("H", 0) + h
        ch += a.GetFormalCharge()
    return tuple(sorted(cnt.items())), ch


def is_balanced(rsmi: str) -> Optional[bool]:
    pr = parse(rsmi)
    if pr is None:
        return None
    return formula_with_h(pr[0]) == formula_with_h(pr[1])


def fully_mapped_bijective(rsmi: str) -> bool:
    pr = parse(rsmi)
    if pr is None:
        return False
    a, b = side_maps(pr[0]), side_maps(pr[1])
    return 0 not in a and 0 not in b and len(set(a)) == len(a) and len(set(b)) == len(b) and set(a) == set(b)


def canon_side(smi: str, strip_maps=True) -> Optional[str]:
    """map-stripped canonical SMILES of one reaction side, fragments sorted; explicit H folded in"""
    m = Chem.MolFromSmiles(smi)  # default: removes explicit H where possible
    if m is None:
        return None
    if strip_maps:
        for a in m.GetAtoms():
            a.SetAtomMapNum(0)
    m = Chem.RemoveHs(m)
    return ".".join(sorted(Chem.MolToSmiles(m, isomericSmiles=False).split(".")))


def canon_rxn(rsmi: str) -> Optional[str]:
    r, p = split(rsmi)
    a, b = canon_side(r), canon_side(p)
    if a is None or b is None:
        return None
    return a + ">>" + b


# ---------------------------------------------------------------------------- transformations
def renumber(rsmi: str, f: Dict[int, int]) -> str:
    pr = parse(rsmi)
    out = []
    for m in pr:
        m = Chem.Mol(m)
        for a in m.GetAtoms():
            k = a.GetAtomMapNum()
            if k:
                a.SetAtomMapNum(f.get(k, k))
        out.append(Chem.MolToSmiles(m, canonical=False))
    return ">>".join(out)


def all_maps(rsmi: str) -> List[int]:
    pr = parse(rsmi)
    return sorted(set(side_maps(pr[0])) | set(side_maps(pr[1])) - {0})


def shift_map(maps: List[int], k: int) -> Dict[int, int]:
    n = len(maps)
    return {maps[i]: maps[(i + k) % n] for i in range(n)}


def reversal_map(maps: List[int]) -> Dict[int, int]:
    return {a: b for a, b in zip(maps, reversed(maps))}


def reroot(side_smi: str, atom_idx: int) -> str:
    m = mol(side_smi)
    return Chem.MolToSmiles(m, rootedAtAtom=atom_idx, canonical=False)


def n_atoms(side_smi: str) -> int:
    return mol(side_smi).GetNumAtoms()


def fragment_orders(side_smi: str, full: bool) -> List[str]:
    fr = side_smi.split(".")
    k = len(fr)
    if k == 1:
        return []
    if k <= 4 and full:
        perms = list(itertools.permutations(range(k)))[1:]
    else:
        perms = [tuple((i + s) % k for i in range(k)) for s in range(1, k)] + [tuple(reversed(range(k)))]
    return [".".join(fr[i] for i in p) for p in dict.fromkeys(perms)]


def reverse_rxn(rsmi: str) -> str:
    r, p = split(rsmi)
    return p + ">>" + r


def variants(rsmi: str, centre_maps: List[int], tier: str, seed: int = 0) -> Iterator[Tuple[str, str]]:
    """(tag, variant reaction SMILES): fully enumerated families, the same mapped reaction in every case."""
    maps = all_maps(rsmi)
    n = len(maps)
    base = shift_map(maps, seed % n) if seed and n else {}
    rs = renumber(rsmi, base) if base else rsmi
    yield "identity", rs
    shifts = range(1, n) if tier != "quick" else sorted({1, n // 2, n - 1} - {0})
    for k in shifts:
        yield f"shift{k}", renumber(rs, shift_map(maps, k))
    yield "reversal", renumber(rs, reversal_map(maps))
    cm = [base.get(c, c) for c in centre_maps]
    if tier != "quick" and len(cm) <= 5:
        perms = list(itertools.permutations(cm))[1:]
    else:
        perms = []
        for i in range(len(cm)):
            for j in range(i + 1, len(cm)):
                p = list(cm)
                p[i], p[j] = p[j], p[i]
                perms.append(tuple(p))
        if tier == "quick":
            perms = perms[:3]
    for p in perms:
        yield "centre_perm", renumber(rs, dict(zip(cm, p)))
    r, pside = split(rs)
    nr, npr = n_atoms(r), n_atoms(pside)
    roots_r = range(nr) if tier != "quick" else sorted({0, nr // 2, nr - 1})
    roots_p = range(npr) if tier != "quick" else sorted({0, npr // 2, npr - 1})
    for i in roots_r:
        yield f"reroot_r{i}", reroot(r, i) + ">>" + pside
    for i in roots_p:
        yield f"reroot_p{i}", r + ">>" + reroot(pside, i)
    for fo in fragment_orders(r, tier != "quick"):
        yield "fragorder_r", fo + ">>" + pside
    for fo in fragment_orders(pside, tier != "quick"):
        yield "fragorder_p", r + ">>" + fo
    yield "reverse", reverse_rxn(rs)


# ---------------------------------------------------------------------------- corpora
_CACHE: Dict[str, list] = {}


def corpus(name: str) -> List[dict]:
    """name in {'ecoli','graph','test','hydro'}; returns list of dicts with at least 'id' and (where present) 'rsmi'."""
    if name in _CACHE:
        return _CACHE[name]
    import pickle

    out = []
    if name == "ecoli":
        data = json.load(open(os.path.join(REPO, "Data", "ecoli.json.gz")))
        for i, d in enumerate(data):
            out.append({"id": f"ecoli#{i}", "rsmi": d.get("smart") or d.get("rsmi")})
    elif name == "graph":
        data = pickle.load(open(os.path.join(REPO, "Data", "Testcase", "graph.pkl.gz"), "rb"))
        for i, d in enumerate(data):
            out.append({"id": f"graph#{i}", "rsmi": d["smart"], "ITS": d["ITS"], "RC": d["RC"]})
    elif name == "test":
        data = pickle.load(open(os.path.join(REPO, "Data", "Testcase", "test.pkl.gz"), "rb"))
        for i, d in enumerate(data):
            out.append(dict({"id": f"test#{i}"}, **(d if isinstance(d, dict) else {"item": d})))
    elif name == "hydro":
        data = pickle.load(open(os.path.join(REPO, "Data", "Testcase", "hydro", "hydrogen_test.pkl.gz"), "rb"))
        for i, d in enumerate(data):
            out.append(dict({"id": f"hydro#{i}"}, **(d if isinstance(d, dict) else {"item": d})))
    _CACHE[name] = out
    return out


def corpus_reactions() -> List[Tuple[str, str]]:
    """(id, mapped reaction SMILES) for every parsable corpus reaction"""
    out = []
    for name in ("graph", "ecoli"):
        for d in corpus(name):
            s = d.get("rsmi")
            if not s or s.count(">>") != 1:
                continue
            if parse(s) is None:
                continue
            out.append((d["id"], s))
    return out
