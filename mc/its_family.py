"""Synthetic reactant/product graph pairs on a shared node set (C01/C02)."""
from __future__ import annotations

import itertools

LABELS = [
    ("C", False, 0, 0), ("C", False, 1, 0), ("C", False, 0, 1), ("C", False, 1, 1),
    ("O", False, 0, 0), ("O", False, 1, 0), ("O", False, 0, -1), ("C", True, 1, 0), ("N", True, 0, 0),
]
ORDERS = [0.0, 1.0, 2.0, 1.5]
ALT = {0: 1, 1: 0, 2: 0, 3: 1, 4: 6, 5: 4, 6: 4, 7: 1, 8: 7}  # one alternative product label per reactant label


def pairs(tier):
    """cases: dict(n, gl, hl, ge, he, absent) with label indices / order indices per node / node pair"""
    # n = 1
    for a in range(len(LABELS)):
        for b in range(len(LABELS)):
            yield {"n": 1, "gl": [a], "hl": [b], "ge": [], "he": []}
    # n = 2: labels independent on both sides, all edge order pairs, both orientations
    lab = range(len(LABELS))
    for gl in itertools.product(lab, repeat=2):
        for hl in itertools.product(lab, repeat=2):
            if tier == "quick" and (gl[0] + 2 * gl[1] + 3 * hl[0] + 5 * hl[1]) % 4:
                continue
            for ge in range(4):
                for he in range(4):
                    yield {"n": 2, "gl": list(gl), "hl": list(hl), "ge": [ge], "he": [he]}
    # n = 2 with node 2 present on one side only
    for gl in itertools.product(lab, repeat=2):
        for b in lab:
            yield {"n": 2, "gl": list(gl), "hl": [b, None], "ge": [1], "he": [0]}
            yield {"n": 2, "gl": [b, None], "hl": list(gl), "ge": [0], "he": [2]}
    # n = 3: reactant over 3 labels, product = same or the alternative label, edges independent
    small = [0, 4, 7]
    for gl in itertools.product(small, repeat=3):
        for flip in itertools.product((0, 1), repeat=3):
            hl = [ALT[g] if f else g for g, f in zip(gl, flip)]
            for ge in itertools.product(range(3), repeat=3):
                for he in itertools.product(range(3), repeat=3):
                    if tier == "quick" and (sum(ge) * 7 + sum(he) * 3 + sum(flip)) % 3:
                        continue
                    yield {"n": 3, "gl": list(gl), "hl": hl, "ge": list(ge), "he": list(he)}
    if tier != "quick":
        # n = 4: elements only, orders {0,1,2}, reactant a path/cycle family, product edges all
        for ge in itertools.product(range(3), repeat=6):
            if sum(1 for e in ge if e) > 4:
                continue
            for he in itertools.product(range(2), repeat=6):
                yield {"n": 4, "gl": [0, 4, 0, 4], "hl": [0, 4, 0, 5], "ge": list(ge), "he": list(he)}


def build(case, flip=False, edge_order_reversed=False):
    import networkx as nx

    n = case["n"]
    ids = [11, 5, 8, 2][:n]  # deliberately not sorted
    pr = [(i, j) for i in range(n) for j in range(i + 1, n)]
    out = []
    for labs, es in ((case["gl"], case["ge"]), (case["hl"], case["he"])):
        g = nx.Graph()
        for i in range(n):
            if labs[i] is None:
                continue
            el, ar, hc, ch = LABELS[labs[i]]
            g.add_node(ids[i], element=el, aromatic=ar, hcount=hc, charge=ch, atom_map=ids[i], neighbors=[])
        items = list(zip(pr, es))
        if edge_order_reversed:
            items = items[::-1]
        for (i, j), e in items:
            if e and labs[i] is not None and labs[j] is not None:
                if flip:
                    g.add_edge(ids[j], ids[i], order=ORDERS[e])
                else:
                    g.add_edge(ids[i], ids[j], order=ORDERS[e])
        out.append(g)
    return out
