"""C10 — changing representation (SMILES, graph, explicit/implicit H, GML) loses nothing (E1)."""
from __future__ import annotations

import os

from rdkit import Chem

from mc import enum_rxn as er
from mc import ref_match as rm
from mc.core import Fail, Outcome, Sub, run_subs, VERIF
from mc.checks.c01 import centre_maps

PROPERTY = "C10"
ASSUMPTIONS = [
    "molecules: every distinct sanitisable fragment of the corpus reactions plus /verif/data/molecules.txt; stereo is stripped before comparison; radicals excluded",
    "oracle for molecule identity: RDKit canonical SMILES (isomericSmiles=False) after RemoveHs, and RDKit's total hydrogen count",
    "GML rules are only compared for reactions whose mapped atoms occur on both sides (bijective maps); 6 corpus reactions with a one-sided [H+] are skipped and counted",
    "rule equivalence: bijective isomorphism (ref_match) on element, charge and the (before, after) order pair",
]
RULE = {
    "quick": "every molecule (about 600) under 3 re-rootings: SMILES->graph->SMILES, explicit<->implicit hydrogen round trip, hydrogen totals, partially explicit writings (one hydrogen of an atom as an atom, the rest as a count); "
    "every corpus reaction, 8 hand-written ionic reactions (charges -2..+3, spectator ions) and the 29 hand-written explicit-hydrogen reactions (each also with a spectator Na+) under their renumbering variants: "
    "centre ITS->GML->ITS for every flag combination, the explicit-hydrogen export (heavy-atom part must read back as the rule), and the three documented routes to a GML rule (reaction string / full ITS / centre ITS), core and full; non-trivial = molecule has hydrogens, resp. centre non-empty",
    "thorough": "all re-rootings of every molecule; all variants of the reactions",
}


def molecules():
    seen = {}
    for rid, s in er.corpus_reactions():
        for side in s.split(">>"):
            for fr in side.split("."):
                m = Chem.MolFromSmiles(fr)
                if m is None:
                    continue
                for a in m.GetAtoms():
                    a.SetAtomMapNum(0)
                if any(a.GetNumRadicalElectrons() for a in m.GetAtoms()):
                    continue
                c = Chem.MolToSmiles(m, isomericSmiles=False)
                seen.setdefault(c, c)
    for line in open(os.path.join(VERIF, "data", "molecules.txt")):
        line = line.strip()
        if not line or line.startswith("#"):
            continue
        m = Chem.MolFromSmiles(line)
        if m is None or any(a.GetNumRadicalElectrons() for a in m.GetAtoms()):
            continue
        seen.setdefault(Chem.MolToSmiles(m, isomericSmiles=False), line)
    return sorted(seen.values())


def gen_mol(tier, seed):
    for s in molecules():
        yield s


def canon_noh(smi_or_mol):
    m = Chem.MolFromSmiles(smi_or_mol) if isinstance(smi_or_mol, str) else smi_or_mol
    if m is None:
        return None
    m = Chem.RemoveHs(m)
    return Chem.MolToSmiles(m, isomericSmiles=False)


def total_h(smi):
    ps = Chem.SmilesParserParams()
    ps.removeHs = False
    m = Chem.MolFromSmiles(smi, ps)
    if m is None:
        return None
    return sum(a.GetTotalNumHs() for a in m.GetAtoms()) + sum(1 for a in m.GetAtoms() if a.GetSymbol() == "H")


def graph_view(g):
    return ({v: (d.get("element"), d.get("charge"), d.get("aromatic"), d.get("hcount")) for v, d in g.nodes(data=True)},
            {frozenset((u, v)): d.get("order") for u, v, d in g.edges(data=True)})


TIER = ["quick"]
SEED = [0]


def check_mol(smi):
    from synkit.IO.chem_converter import smiles_to_graph, graph_to_smi
    from synkit.Graph.Hyrogen._misc import h_to_explicit, h_to_implicit

    fails = []
    n = 0
    m0 = Chem.MolFromSmiles(smi)
    want = canon_noh(smi)
    want_h = total_h(smi)
    na = m0.GetNumAtoms()
    roots = range(na) if TIER[0] != "quick" else sorted({0, na // 2, na - 1})
    for r in roots:
        s = Chem.MolToSmiles(m0, rootedAtAtom=r, canonical=False, isomericSmiles=False)
        g = smiles_to_graph(s)
        n += 1
        if g is None:
            fails.append(Fail("smiles_to_graph", f"{s}: None", "a graph", key_extra=f"root{r}"))
            break
        out = graph_to_smi(g)
        n += 1
        if out is None or canon_noh(out) != want:
            fails.append(Fail("smiles_roundtrip", f"{s} -> {out}", want, key_extra=f"root{r}"))
            break
        if total_h(out) != want_h:
            fails.append(Fail("smiles_roundtrip_h", f"{s} -> {out}: {total_h(out)} H", f"{want_h} H", key_extra=f"root{r}"))
            break
        # conversions hand out independent objects: edit the returned graph, convert the same string again
        ref_view = graph_view(g)
        gm = smiles_to_graph(s)
        import copy as _copy

        g_first, g = g, _copy.deepcopy(g)  # keep working on a private copy; edit the object the FIRST conversion returned
        for obj in (gm, g_first):
            for v in list(obj.nodes):
                obj.nodes[v]["charge"] = 7
                obj.nodes[v]["hcount"] = 0
            if obj.number_of_nodes() > 1:
                obj.remove_node(max(obj.nodes))
        g_again = smiles_to_graph(s)
        n += 2
        if graph_view(g_again) != ref_view or graph_view(g) != ref_view:
            fails.append(Fail("conversion_result_shared", f"{s}: after editing a returned graph, converting the same SMILES again gives {graph_view(g_again)}", f"{ref_view}", key_extra=f"root{r}"))
            break
        ge = h_to_explicit(g)
        gi = h_to_implicit(ge)
        n += 2
        if graph_view(gi) != graph_view(g):
            fails.append(Fail("h_roundtrip", f"{s}: implicit(explicit(g)) = {graph_view(gi)}", f"{graph_view(g)}", key_extra=f"root{r}"))
            break
        if graph_view(g) != graph_view(smiles_to_graph(s)):
            fails.append(Fail("h_conversion_mutates_input", f"{s}", "input graph unchanged", key_extra=f"root{r}"))
            break
        nh_nodes = sum(1 for _, d in ge.nodes(data=True) if d.get("element") == "H")
        heavy_h = sum(d.get("hcount", 0) for _, d in ge.nodes(data=True))
        if nh_nodes + heavy_h != want_h:
            fails.append(Fail("explicit_h_total", f"{s}: {nh_nodes} H nodes + {heavy_h} implicit", f"{want_h} H", key_extra=f"root{r}"))
            break
        oe = graph_to_smi(ge)
        n += 1
        if oe is None or canon_noh(oe) != want or total_h(oe) != want_h:
            fails.append(Fail("explicit_h_molecule", f"{s}: explicit-H graph writes {oe}", f"{want} with {want_h} H", key_extra=f"root{r}"))
            break
        # partial expansion: hydrogens of a chosen subset of atoms only (as the reactor does for matched atoms)
        withh = [v for v, d in g.nodes(data=True) if d.get("hcount", 0) > 0]
        subsets = [[v] for v in withh] + ([withh[:2]] if len(withh) > 1 else [])
        if TIER[0] == "quick":
            subsets = subsets[:2] + subsets[-2:]
        bad = False
        for sub in subsets:
            gp = h_to_explicit(g, list(sub))
            n += 1
            nh = sum(1 for _, d in gp.nodes(data=True) if d.get("element") == "H") - sum(1 for _, d in g.nodes(data=True) if d.get("element") == "H")
            exp_nh = sum(g.nodes[v]["hcount"] for v in sub)
            heavy_same = all(gp.nodes[v].get("element") == g.nodes[v].get("element") for v in g.nodes)
            op = graph_to_smi(gp)
            if nh != exp_nh or not heavy_same or op is None or canon_noh(op) != want or total_h(op) != want_h or graph_view(h_to_implicit(gp)) != graph_view(g):
                fails.append(Fail("partial_explicit_h", f"{s}: expanding atoms {sub} gives {op} ({nh} new H atoms)", f"{want} with {want_h} H, {exp_nh} new H atoms, restorable", key_extra=f"root{r}"))
                bad = True
                break
        if bad:
            break
        # implicit direction on a graph that had explicit hydrogens from the start
        oi = graph_to_smi(gi)
        if oi is None or canon_noh(oi) != want or total_h(oi) != want_h:
            fails.append(Fail("implicit_h_molecule", f"{s}: re-implicit graph writes {oi}", f"{want} with {want_h} H", key_extra=f"root{r}"))
            break
    return Outcome(nontrivial=bool(want_h), outcome=f"H{min(want_h or 0, 9)}", fails=fails, transitions=n)


# ------------------------------------------------------------------ partially explicit molecules
def partially_explicit(smi):
    """writings of the molecule in which one atom has one of its hydrogens as an atom and the others as a count"""
    m0 = Chem.MolFromSmiles(smi)
    out = []
    for a in m0.GetAtoms():
        if a.GetTotalNumHs() >= 2 and len(out) < (2 if TIER[0] == "quick" else 6):
            m = Chem.RWMol(m0)
            b = m.GetAtomWithIdx(a.GetIdx())
            nh = b.GetTotalNumHs()
            h = m.AddAtom(Chem.Atom(1))
            m.AddBond(a.GetIdx(), h, Chem.BondType.SINGLE)
            b.SetNumExplicitHs(nh - 1)
            b.SetNoImplicit(True)
            out.append(Chem.MolToSmiles(m, canonical=False))
    return out


def check_partial(smi):
    from synkit.IO.chem_converter import smiles_to_graph, graph_to_smi
    from synkit.Graph.Hyrogen._misc import h_to_explicit, h_to_implicit

    fails = []
    n = 0
    want = canon_noh(smi)
    want_h = total_h(smi)
    ws = partially_explicit(smi)
    for w in ws:
        g = smiles_to_graph(w)
        n += 1
        if g is None:
            fails.append(Fail("smiles_to_graph", f"{w}: None", "a graph"))
            break
        mixed = any(d.get("element") != "H" and d.get("hcount", 0) > 0 and any(g.nodes[u].get("element") == "H" for u in g[v]) for v, d in g.nodes(data=True))
        if not mixed:
            continue
        view = graph_view(g)
        for name, fn in (("h_to_implicit", h_to_implicit), ("h_to_explicit", h_to_explicit)):
            h = fn(g)
            o = graph_to_smi(h)
            n += 2
            nh_nodes = sum(1 for _, d in h.nodes(data=True) if d.get("element") == "H")
            heavy_h = sum(d.get("hcount", 0) for _, d in h.nodes(data=True) if d.get("element") != "H")
            if o is None or canon_noh(o) != want or total_h(o) != want_h or nh_nodes + heavy_h != want_h:
                fails.append(Fail("partially_explicit", f"{w}: {name} gives {o} with {nh_nodes} H atoms + {heavy_h} counted", f"{want} with {want_h} H", key_extra=name))
                break
            if graph_view(g) != view:
                fails.append(Fail("h_conversion_mutates_input", f"{w}: {name}", "input graph unchanged", key_extra=name))
                break
        if fails:
            break
    return Outcome(nontrivial=bool(ws), outcome=f"partial{min(len(ws), 9)}", fails=fails, transitions=n)


# ------------------------------------------------------------------ hydrogens kept as atoms by their map numbers
def gen_sides(tier, seed):
    """reaction sides that carry mapped explicit hydrogens (explicit-H corpus, hand-written reactions), map numbers shifted so that they differ from the node ids"""
    from mc.curated import CURATED, minimal_explicit

    seen = set()
    rx = [(rid, s) for rid, s in er.corpus_reactions() if rid.startswith("graph")] + [(f"cur#{k}", minimal_explicit(v)) for k, v in CURATED.items()]
    for rid, s in rx:
        if "[H" not in s:
            continue
        maps = er.all_maps(s)
        for shift in (0, 3):
            t = er.renumber(s, {m: m + shift for m in maps}) if shift else s
            for side in er.split(t):
                if "[H" in side and side not in seen:
                    seen.add(side)
                    yield side


def check_preserved_h(side):
    from synkit.IO.chem_converter import smiles_to_graph, graph_to_smi

    ps = Chem.SmilesParserParams()
    ps.removeHs = False
    m = Chem.MolFromSmiles(side, ps)
    if m is None:
        return Outcome(skipped="unparsable")
    hmaps = sorted(a.GetAtomMapNum() for a in m.GetAtoms() if a.GetSymbol() == "H" and a.GetAtomMapNum())
    want, want_h = canon_noh(side), total_h(side)
    fails = []
    n = 0
    for name, keep in (("all", hmaps), ("first", hmaps[:1]), ("last", hmaps[-1:])):
        g = smiles_to_graph(side, drop_non_aam=False, use_index_as_atom_map=False)
        if g is None:
            return Outcome(skipped="smiles_to_graph_none")
        out = graph_to_smi(g, preserve_atom_maps=list(keep))
        n += 1
        ok = out is not None and canon_noh(out) == want and total_h(out) == want_h
        if ok:
            mo = Chem.MolFromSmiles(out, ps)
            kept = {a.GetAtomMapNum() for a in mo.GetAtoms() if a.GetSymbol() == "H"}
            ok = set(keep) <= kept
        if not ok:
            fails.append(Fail("preserved_hydrogens", f"{side}: keeping hydrogens {list(keep)} gives {out}", f"{want} with {want_h} H and those hydrogens as atoms", key_extra=name))
            break
    return Outcome(nontrivial=bool(hmaps), outcome=f"keep{min(len(hmaps), 9)}", fails=fails, transitions=n)


# ------------------------------------------------------------------ GML
def rule_eq_node(a, b):
    return a.get("element") == b.get("element") and _ch(a) == _ch(b)


def _ch(d):
    t = d.get("typesGH")
    if t:
        return (t[0][3], t[1][3])
    c = d.get("charge")
    return tuple(c) if isinstance(c, (tuple, list)) else (c, c)


def rule_eq_edge(a, b):
    return tuple(a.get("order")) == tuple(b.get("order"))


# hand-written ionic reactions: multiply charged atoms (written n+ / n- in GML), reactions in which every bond changes next to a spectator ion
IONIC = {
    "neutralisation_na": "[Na+:1].[OH-:2].[H:3][Cl:4]>>[Na+:1].[Cl-:4].[H:3][OH:2]",
    "sulfide_alkylation": "[S-2:1].[CH3:2][Br:3]>>[S-:1][CH3:2].[Br-:3]",
    "oxide_water": "[O-2:1].[H:2][O:3][H:4]>>[O-:1][H:2].[O-:3][H:4]",
    "copper_hydroxide": "[Cu+2:1].[OH-:2]>>[Cu+:1][OH:2]",
    "iron_chloride": "[Fe+3:1].[Cl-:2]>>[Fe+2:1][Cl:2]",
    "carbonate_protonation": "[O-:1][C:2](=[O:3])[O-:4].[H+:5]>>[O-:1][C:2](=[O:3])[O:4][H:5]",
    "phosphate_mg": "[Mg+2:1].[CH3:2][O:3][P:4](=[O:5])([O-:6])[O:7][H:8]>>[Mg+2:1].[CH3:2][O:3][P:4](=[O:5])([O-:6])[O-:7].[H+:8]",
    "sulfate_dianion_methylation": "[O-:1][S:2](=[O:3])(=[O:4])[O-:5].[CH3:6][I:7]>>[O-:1][S:2](=[O:3])(=[O:4])[O:5][CH3:6].[I-:7]",
}


def gen_rxn(tier, seed):
    for rid, s in er.corpus_reactions():
        yield [rid, s]
    for name, s in IONIC.items():
        yield [f"ionic#{name}", s]
    from mc.curated import CURATED, minimal_explicit

    for name, s0 in CURATED.items():
        s = minimal_explicit(s0)
        yield [f"cur#{name}", s]
        top = max(er.all_maps(s))
        r, p = er.split(s)
        yield [f"cur+na#{name}", f"{r}.[Na+:{top + 1}]>>{p}.[Na+:{top + 1}]"]


def check_gml(case):
    from synkit.IO.chem_converter import rsmi_to_its, its_to_gml, gml_to_its, smart_to_gml
    from synkit.Graph.ITS.its_decompose import get_rc

    rid, s = case
    fails = []
    n = 0
    nontriv = False
    if not er.fully_mapped_bijective(s):
        # an atom that exists on one side only has no faithful DPO-rule representation; the statement is about reactions (same atoms on both sides)
        return Outcome(skipped="atoms_on_one_side_only")
    vs = list(er.variants(s, centre_maps(s), TIER[0], SEED[0]))
    if TIER[0] == "quick":
        vs = vs[:6]
    for tag, v in vs:
        if tag == "reverse":
            continue
        its = rsmi_to_its(v)
        if its is None:
            return Outcome(skipped="unparsable_by_rsmi_to_its")
        rc = get_rc(its)
        if rc.number_of_nodes() == 0:
            continue
        nontriv = True
        # (3) centre ITS -> GML -> ITS
        for reindex in (True, False):
            for exh in (False, True):
                gml = its_to_gml(rc, core=True, reindex=reindex, explicit_hydrogen=exh)
                back = gml_to_its(gml)
                n += 2
                if exh:
                    continue  # explicit-hydrogen export adds hydrogen atoms by design; only required to parse
                if not rm.isomorphic(rc, back, rule_eq_node, rule_eq_edge):
                    fails.append(Fail("gml_roundtrip", f"{tag} reindex={reindex}: rule read back differs from the centre", "same atoms, charges and (before, after) orders", key_extra=f"{tag},{reindex}"))
                    return Outcome(nontrivial=True, outcome="gml", fails=fails, transitions=n)
        # (3b) explicit-hydrogen export adds hydrogen atoms by design: the heavy-atom part must still be the rule
        def heavy(g):
            return g.subgraph([x for x, d in g.nodes(data=True) if d.get("element") != "H"]).copy()

        for core in (True, False):
            for reindex in (True, False):
                try:
                    back = gml_to_its(its_to_gml(its, core=core, reindex=reindex, explicit_hydrogen=True))
                except Exception as e:
                    back = None
                    err = f"{type(e).__name__}: {e}"
                n += 2
                want = heavy(rc if core else its)
                if back is None or not rm.isomorphic(want, heavy(back), rule_eq_node, rule_eq_edge):
                    fails.append(Fail("gml_explicit_hydrogen", f"{tag} core={core} reindex={reindex}: " + (err if back is None else f"heavy atoms read back {heavy(back).number_of_nodes()} / bonds {heavy(back).number_of_edges()}"),
                                      f"the heavy-atom part of the {'centre' if core else 'full ITS'} ({want.number_of_nodes()} atoms / {want.number_of_edges()} bonds)", key_extra=f"{tag},{core},{reindex}"))
                    return Outcome(nontrivial=True, outcome="gml", fails=fails, transitions=n)
        # (4) the documented routes give equivalent rules
        for core in (True, False):
            for reindex in (False, True):
                routes = {
                    "from_string": smart_to_gml(v, core=core, reindex=reindex),
                    "from_full_its": its_to_gml(its, core=core, reindex=reindex),
                }
                if core:
                    routes["from_centre_its"] = its_to_gml(rc, core=True, reindex=reindex)
                n += len(routes)
                parsed = {k: gml_to_its(g) for k, g in routes.items()}
                names = sorted(parsed)
                ref = parsed[names[0]]
                want = rc if core else its
                for k in names:
                    if not rm.isomorphic(want, parsed[k], rule_eq_node, rule_eq_edge):
                        fails.append(Fail("gml_routes_differ", f"{tag} core={core} reindex={reindex}: route {k} gives {parsed[k].number_of_nodes()} atoms / {parsed[k].number_of_edges()} bonds", f"equivalent to the {'centre' if core else 'full ITS'} ({want.number_of_nodes()} atoms / {want.number_of_edges()} bonds)", key_extra=f"{tag},{core},{reindex},{k}"))
                        return Outcome(nontrivial=True, outcome="gml", fails=fails, transitions=n)
    return Outcome(nontrivial=nontriv, outcome="gml", fails=fails, transitions=n)


def subchecks(tier, seed):
    TIER[0], SEED[0] = tier, seed
    return [
        Sub("molecules", gen_mol, check_mol, key=lambda c: c, rule=RULE[tier]),
        Sub("partially_explicit", gen_mol, check_partial, key=lambda c: c, rule="every molecule written with one hydrogen of an atom as an atom and the atom's other hydrogens as a count (2 such atoms each; thorough 6): "
            "h_to_implicit and h_to_explicit keep the molecule and the hydrogen total and do not touch their input"),
        Sub("preserved_hydrogens", gen_sides, check_preserved_h, key=lambda c: c, rule="every side of an explicit-hydrogen reaction (corpus + hand-written; map numbers as written and shifted by 3 so that they differ from node ids and partly coincide with them) "
            "written back with all / the first / the last of its mapped hydrogens kept as atoms: molecule and hydrogen total unchanged, the kept hydrogens present"),
        Sub("gml", gen_rxn, check_gml, key=lambda c: c[0], rule=RULE[tier]),
    ]


def run(tier, seed):
    acc = run_subs(subchecks(tier, seed), tier, seed)
    return acc, True, {}
