"""C19 — complexes, linkage classes, deficiency follow their definitions (E1)."""
from __future__ import annotations

import zlib
from collections import Counter

from mc import enum_crn as ec
from mc import ref_linalg as rl
from mc.core import Fail, Outcome, Sub, run_subs
from mc.checks.c17 import TEXTBOOK, SCHEMES, scheme_lists

PROPERTY = "C19"
ASSUMPTIONS = [
    "networks: as C17 (3 species, <=2 reactions, coefficients {0,1,2}; thorough adds 3 reactions with coefficients {0,1} and 4 species) plus textbook list",
    "oracle: complexes/linkage classes/strong connectivity from first principles (union-find, reachability closure), exact rational ranks",
    "linkage-class deficiencies are compared as multisets (class order is unspecified)",
]
RULE = {
    "quick": "every network with <=2 reactions over {A,B,C}, coefficients {0,1,2}, one per species-permutation class, + every digraph of unimolecular reactions on 4 species with <=5 arcs (1 585; thorough: all 4 095) + trees on five single-species complexes with their reactions listed in every order (2 304) + textbook networks; each analysed from "
    "the hypergraph from its exported bipartite graph (string and integer ids, and inserted in the opposite order) and with an extra registered species that occurs in no reaction; the analyser object asked a second time and through the convenience wrapper; non-trivial = at least 2 linkage classes or deficiency > 0 or not weakly reversible",
    "thorough": "all 266 084 labelled 2-reaction networks + all 3-reaction networks with coefficients {0,1} + 4 species x 2 reactions x {0,1} + textbook",
}

EXTRA = [
    "A+B>>C; C>>A+B",
    "A>>2B; 2B>>A; A+C>>D; D>>A+C; D>>B+E; B+E>>A+C",  # Edelstein-like
    "A>>B; 2A>>2B",  # two linkage classes sharing a direction: sum(delta_l)=0 < delta=1
    "A>>2A; 2A>>A; A+B>>C; C>>B",
    "∅>>A; A>>∅; A>>B",
]


def unimolecular_digraphs(tier):
    """every network of unimolecular reactions X>>Y among A..D with <=5 (thorough: any number of) distinct arcs:
    all complex graphs on four single-species complexes (linkage classes, strong components, sources and sinks)"""
    import itertools

    arcs = [(i, j) for i in range(4) for j in range(4) if i != j]
    kmax = 5 if tier == "quick" else 12
    for k in range(1, kmax + 1):
        for sub in itertools.combinations(arcs, k):
            yield "; ".join(f"{ec.SPECIES[i]}>>{ec.SPECIES[j]}" for i, j in sub)


def tree_assembly_orders(tier):
    """complex graphs that are trees on five single-species complexes (3 shapes x all 16 orientations x 2 labellings; thorough:
    6 labellings), their four reactions listed in every one of the 24 orders: one linkage class however it is assembled"""
    import itertools

    shapes = [[(0, 1), (1, 2), (2, 3), (3, 4)], [(0, 1), (0, 2), (0, 3), (0, 4)], [(0, 1), (1, 2), (2, 3), (2, 4)]]
    labs = [(0, 1, 2, 3, 4), (4, 3, 2, 1, 0)] + ([(2, 0, 4, 1, 3), (1, 3, 0, 4, 2), (3, 4, 1, 0, 2), (0, 2, 4, 3, 1)] if tier != "quick" else [])
    for sh in shapes:
        for orient in itertools.product((0, 1), repeat=4):
            for lab in labs:
                arcs = [((lab[u], lab[v]) if o == 0 else (lab[v], lab[u])) for (u, v), o in zip(sh, orient)]
                for order in itertools.permutations(range(4)):
                    yield "; ".join(f"{ec.SPECIES[arcs[k][0]]}>>{ec.SPECIES[arcs[k][1]]}" for k in order)


def gen(tier, seed):
    for net in ec.networks(3, 2, 2, quotient=(tier == "quick")):
        yield ec.net_str(net)
    yield from unimolecular_digraphs(tier)
    yield from tree_assembly_orders(tier)
    for s in TEXTBOOK + EXTRA:
        yield s
    if tier != "quick":
        for net in ec.networks(3, 3, 1, rmin=3):
            yield ec.net_str(net)
        for net in ec.networks(4, 2, 1):
            yield ec.net_str(net)


def oracle(net):
    names = ec.SPECIES
    used = sorted({i for l, r in net for i in range(len(l)) if l[i] or r[i]})
    cx = []
    idx = {}

    def add(v):
        v = tuple(v[i] for i in used)
        if v not in idx:
            idx[v] = len(cx)
            cx.append(v)
        return idx[v]

    arcs = [(add(l), add(r)) for l, r in net]
    n = len(cx)
    par = list(range(n))

    def find(x):
        while par[x] != x:
            par[x] = par[par[x]]
            x = par[x]
        return x

    for a, b in arcs:
        par[find(a)] = find(b)
    classes = {}
    for i in range(n):
        classes.setdefault(find(i), []).append(i)
    reach = [[i == j for j in range(n)] for i in range(n)]
    for a, b in arcs:
        reach[a][b] = True
    for k in range(n):
        for i in range(n):
            if reach[i][k]:
                for j in range(n):
                    if reach[k][j]:
                        reach[i][j] = True
    wr = all(reach[i][j] for c in classes.values() for i in c for j in c)
    S = [[r[i] - l[i] for (l, r) in net] for i in used]
    rk = rl.rank(S)
    delta = n - len(classes) - rk
    lds = []
    for c in classes.values():
        cs = set(c)
        diffs = [[cx[b][k] - cx[a][k] for k in range(len(used))] for a, b in arcs if a in cs]
        diffs = [d for d in diffs if any(d)]
        lds.append(len(c) - 1 - (rl.rank(diffs) if diffs else 0))
    assert delta >= 0 and sum(lds) <= delta and all(x >= 0 for x in lds)
    return dict(n_species=len(used), n_reactions=len(net), n_complexes=n, n_linkage_classes=len(classes), stoich_rank=rk, deficiency=delta, weakly_reversible=wr), sorted(lds), set(cx)


def check(case):
    net = ec.parse_net(case)
    rules, ids = scheme_lists(case, len(net))
    H = ec.build_hypergraph(net, rules=rules, ids=ids)
    return judge(H, net)


def check_edit(case):
    """analyse, edit the same object in place, analyse again"""
    from mc import edit_layer as el

    net = ec.parse_net(case["net"])
    H = ec.build_hypergraph(net)
    judge(H, net)  # first analysis (its verdict belongs to the plain sub-check)
    net2 = el.apply_edit(H, net, case["edit"])
    if not net2:
        return Outcome(skipped="network_became_empty")
    out = judge(H, net2)
    for f in out.fails:
        f.tag = "after_edit_" + f.tag
    return out


def _judge(H, net):
    from synkit.CRN.Props.deficiency import DeficiencyAnalyzer
    from synkit.CRN.Hypergraph.conversion import hypergraph_to_bipartite

    want, lds, cxs = oracle(net)
    fails = []
    bip = hypergraph_to_bipartite(H)
    rev = type(bip)()  # the same bipartite graph with nodes and arcs inserted in the opposite order
    rev.graph.update(bip.graph)
    for v, d in reversed(list(bip.nodes(data=True))):
        rev.add_node(v, **dict(d))
    for u, v, d in reversed(list(bip.edges(data=True))):
        rev.add_edge(u, v, **dict(d))
    Hiso = H.copy()  # the same reactions plus a registered species that occurs in none of them
    Hiso.add_rxn({"Zz9": 1}, {"Zy9": 1}, edge_id="tmp_iso")
    Hiso.remove_species("Zz9", prune_orphans=False)
    Hiso.remove_rxn("tmp_iso")
    want0 = want
    for view, obj in (("hypergraph", H), ("bipartite_str", bip), ("bipartite_int", hypergraph_to_bipartite(H, integer_ids=True)), ("bipartite_reversed_insertion", rev), ("with_isolated_species", Hiso)):
        want = dict(want0, n_species=want0["n_species"] + 1) if view == "with_isolated_species" and "Zz9" in Hiso.species and len(Hiso.edges) == len(H.edges) else want0
        an = DeficiencyAnalyzer(obj).compute_summary().compute_linkage_deficiencies()
        s = an.summary
        got = {k: getattr(s, k) for k in want}
        if got != want:
            bad = {k: (got[k], want[k]) for k in want if got[k] != want[k]}
            fails.append(Fail("summary", f"{view}: (got,want) {bad}", str(want), key_extra=view))
            continue
        d = an.as_dict()
        if {k: d.get(k) for k in want} != want:
            fails.append(Fail("as_dict", f"{view}: {d}", str(want), key_extra=view))
        ld = an.linkage_deficiencies
        if sorted(ld) != lds or sorted(d.get("linkage_deficiencies", [])) != lds:
            fails.append(Fail("linkage_deficiencies", f"{view}: {ld}", str(lds), key_extra=view))
        if s.deficiency < 0 or sum(ld) > s.deficiency:
            fails.append(Fail("deficiency_bounds", f"{view}: delta={s.deficiency} sum={sum(ld)}", "0 <= sum(delta_l) <= delta", key_extra=view))
        # the same analyser object asked again (second pass, then the convenience wrapper): answers may not drift
        first = (dict(got), sorted(ld))
        for again in ("second_pass", "wrapper"):
            if again == "second_pass":
                an.compute_summary().compute_linkage_deficiencies()
            else:
                an.compute_crn_deficiency()
            s2 = an.summary
            now = ({k: getattr(s2, k) for k in want}, sorted(an.linkage_deficiencies))
            if now != first or sorted(an.as_dict().get("linkage_deficiencies", [])) != lds:
                fails.append(Fail("analyser_reuse", f"{view} {again}: {now}", f"{first} (the first answer of the same object)", key_extra=f"{view},{again}"))
                break
        cxi = getattr(an, "_complexes", None)
        if cxi is not None and view != "with_isolated_species" and set(map(tuple, cxi)) != cxs:
            fails.append(Fail("complexes", f"{view}: {sorted(set(map(tuple, cxi)))}", str(sorted(cxs)), key_extra=view))
    want = want0
    nt = want["n_linkage_classes"] > 1 or want["deficiency"] > 0 or not want["weakly_reversible"]
    return Outcome(nontrivial=nt, outcome=f"c{want['n_complexes']}l{want['n_linkage_classes']}d{want['deficiency']}wr{int(want['weakly_reversible'])}", fails=fails, transitions=15)


def judge(H, net):
    """analysis must not change the network it analyses"""
    from mc.checks.c15 import snap

    before = snap(H)
    out = _judge(H, net)
    if snap(H) != before:
        out.fails.append(Fail("analysis_mutates_network", "the network object changed while it was analysed", "unchanged"))
    return out


def subchecks(tier, seed):
    from mc import edit_layer as el

    return [
        Sub("networks", gen, check, key=lambda c: c, rule=RULE[tier]),
        Sub("edited", lambda t, s: el.gen_edits(t), check_edit, key=lambda c: f"{c['net']} / {c['edit']}", rule="analyse, edit in place (replace a reaction under the same id / remove a species), analyse again; all such edits of every 2-reaction unit-coefficient network up to permutation (quick: 1 in 4 of the replacements)"),
    ]


def run(tier, seed):
    acc = run_subs(subchecks(tier, seed), tier, seed)
    return acc, True, {}
