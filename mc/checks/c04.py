"""C04 — applying a reaction's own template regenerates it, forwards and backwards (E1)."""
from mc.core import run_subs
from mc.checks import rule_layer as rl

PROPERTY = "C04"
ASSUMPTIONS = [
    "precondition decided from the input by the harness (RDKit only): formula-balanced, fully and bijectively mapped, centre hydrogens all explicit or none; for centre templates additionally every atom whose "
    "charge or hydrogen count changes lies on a changed bond (otherwise the centre cannot carry the change)",
    "strategy comp is only required to regenerate when the substrate has no more fragments than the template's pattern (with spectator fragments it returns nothing by its documented component-count rule; all and bt are required always)",
    "oracle: RDKit canonical, map-stripped, fragment-sorted reaction must be among the canonicalised outputs",
]
RULE = {
    "quick": "every corpus reaction satisfying the precondition x template {centre, full ITS} x {forward, backward} x strategies (centre: all/bt; full ITS: bt/comp; the reaction string as template: bt, forwards then backwards in one process); plus 10 renumbering/re-rooting variants each (template extracted from the variant, substrate written as in the variant, strategy bt)",
    "thorough": "all strategies for both template kinds; all variants (all shifts, centre permutations, re-rootings, fragment orders)",
}


def subchecks(tier, seed):
    return rl.c04_subs(tier, seed)


def run(tier, seed):
    acc = run_subs(subchecks(tier, seed), tier, seed)
    return acc, True, {}
