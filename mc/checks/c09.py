"""C09 — reaction normal forms preserve the reaction; equivalence checks are exact (E1)."""
from __future__ import annotations

import networkx as nx
from rdkit import Chem

from mc import enum_rxn as er
from mc import ref_match as rm
from mc.core import Fail, Outcome, Sub, run_subs
from mc.checks.c01 import centre_maps

PROPERTY = "C09"
ASSUMPTIONS = [
    "corpus reactions (346 parsable) under the fully enumerated renumbering / re-rooting / fragment-order families",
    "canonicaliser domain: every atom carries a map number and numbers are unique per side (atoms may exist on one side only); numbering-independence is only required when additionally the maps are bijective "
    "and the reactant atoms are all distinguishable: for the exact back-end (nauty) = trivial automorphism group (ref_match, <=45 atoms); for the 3-iteration refinement back-end (wl) = pairwise different labelled neighbourhoods of radius 3 (own colour refinement)",
    "reaction identity is judged on an RDKit-built mapped reaction graph (per map number: symbol, aromaticity, total H, charge on each side; per mapped bond: order on each side) compared by ref_match, and on RDKit canonical unmapped sides",
    "adversarial re-mappings exchange two centre atoms whose reactant labels differ and whose product labels differ, which provably changes the multiset of ITS node labels",
    "balance oracle: per-element counts with hydrogens and net charge summed atom by atom with RDKit",
]
RULE = {
    "quick": "every corpus reaction x {identity, 3 shifts, reversal, 3 centre transpositions, 6 re-rootings, fragment orders}: CanonRSMI (back-ends wl and nauty) equivalence / unmapped sides / fixed point / "
    "numbering independence; Standardize.fit idempotence and invariance; AAMValidator.smiles_check accepts every renumbering (RC and ITS) and rejects every adversarial centre swap; "
    "rsmi_balance_check on the reaction and on all delete-a-fragment / duplicate-a-fragment / add-a-proton variants; non-trivial = reaction centre non-empty",
    "thorough": "all shifts, all centre permutations, all re-rootings",
}
TIER = ["quick"]
SEED = [0]
_PS = Chem.SmilesParserParams()
_PS.removeHs = False


def rd_its(rsmi):
    """mapped reaction graph built with RDKit only"""
    pr = er.parse(rsmi)
    if pr is None:
        return None
    g = nx.Graph()
    for side, m in enumerate(pr):
        for a in m.GetAtoms():
            k = a.GetAtomMapNum()
            if not k:
                return None
            lab = (a.GetSymbol(), a.GetIsAromatic(), a.GetTotalNumHs(), a.GetFormalCharge())
            if k not in g:
                g.add_node(k, lab=[None, None])
            if g.nodes[k]["lab"][side] is not None:
                return None  # duplicate map on one side
            g.nodes[k]["lab"][side] = lab
        for b in m.GetBonds():
            u, v = b.GetBeginAtom().GetAtomMapNum(), b.GetEndAtom().GetAtomMapNum()
            if not g.has_edge(u, v):
                g.add_edge(u, v, order=[0.0, 0.0])
            g[u][v]["order"][side] = b.GetBondTypeAsDouble()
    return g


def rd_equiv(a, b):
    return rm.isomorphic(a, b, lambda x, y: x["lab"] == y["lab"], lambda x, y: x["order"] == y["order"])


def reactant_graph(rsmi):
    r, _ = er.split(rsmi)
    m = er.mol(r)
    if m is None:
        return None
    g = nx.Graph()
    for a in m.GetAtoms():
        g.add_node(a.GetIdx(), lab=(a.GetSymbol(), a.GetIsAromatic(), a.GetTotalNumHs(), a.GetFormalCharge()))
    for b in m.GetBonds():
        g.add_edge(b.GetBeginAtomIdx(), b.GetEndAtomIdx(), order=b.GetBondTypeAsDouble())
    return g


def reactant_asymmetric(rsmi):
    """all reactant atoms distinguishable in the exact sense: trivial automorphism group"""
    g = reactant_graph(rsmi)
    if g is None or g.number_of_nodes() > 45:
        return None
    n = 0
    for _ in rm.morphisms(g, g, lambda x, y: x["lab"] == y["lab"], lambda x, y: x["order"] == y["order"], induced=True, limit=2):
        n += 1
    return n == 1


def reactant_discrete_within(rsmi, rounds=3):
    """all reactant atoms distinguishable by their labelled neighbourhood of radius `rounds` (own colour refinement):
    the weakest sense of 'distinguishable' a 3-iteration refinement back-end can be held to"""
    g = reactant_graph(rsmi)
    if g is None:
        return None
    col = {v: repr(d["lab"]) for v, d in g.nodes(data=True)}
    for _ in range(rounds):
        col = {v: repr((col[v], sorted((g[v][u]["order"], col[u]) for u in g[v]))) for v in g}
    return len(set(col.values())) == len(col)


def gen(tier, seed):
    for rid, s in er.corpus_reactions():
        yield [rid, s]


def the_variants(s, quick_cap=None):
    vs = [(t, v) for t, v in er.variants(s, centre_maps(s), TIER[0], SEED[0]) if t != "reverse"]
    if TIER[0] == "quick" and quick_cap:
        # keep one member of every family: identity, shifts, reversal, centre swaps, re-rootings, fragment orders
        keep, seen = [], {}
        for t, v in vs:
            fam = t.rstrip("0123456789").split("_")[0]
            if seen.get(fam, 0) < 2:
                keep.append((t, v))
                seen[fam] = seen.get(fam, 0) + 1
        vs = keep[:quick_cap]
    return vs


def check_canon(case):
    from synkit.Chem.Reaction.canon_rsmi import CanonRSMI

    rid, s = case
    base = rd_its(s)
    if base is None:
        return Outcome(skipped="unmapped_or_duplicate_maps")
    fails = []
    n = 0
    bij = er.fully_mapped_bijective(s)
    asym_exact = reactant_asymmetric(s) if bij else False
    asym_wl = reactant_discrete_within(s, 3) if bij else False
    for backend in ("wl", "nauty"):
        outs = {}
        for tag, v in the_variants(s, quick_cap=9):
            c = CanonRSMI(backend=backend)
            try:
                out = c.canonicalise(v).canonical_rsmi
            except Exception as e:
                fails.append(Fail("canon_exception", f"{backend} {tag}: {type(e).__name__}: {e}", "a canonical reaction", key_extra=f"{backend}"))
                break
            n += 1
            g = rd_its(out) if out and "None" not in out else None
            if g is None:
                fails.append(Fail("canon_unparsable", f"{backend} {tag}: {out}", "parsable mapped reaction", key_extra=f"{backend}"))
                break
            if er.canon_rxn(out) != er.canon_rxn(v):
                fails.append(Fail("canon_changes_molecules", f"{backend} {tag}: {er.canon_rxn(out)}", f"{er.canon_rxn(v)}", key_extra=f"{backend}"))
                break
            if not rd_equiv(base, g):
                fails.append(Fail("canon_not_equivalent", f"{backend} {tag}: {out}", f"atom-map-equivalent to {v}", key_extra=f"{backend}"))
                break
            again = CanonRSMI(backend=backend).canonicalise(out).canonical_rsmi
            n += 1
            if again != out:
                fails.append(Fail("canon_not_fixed_point", f"{backend} {tag}: {out} -> {again}", "fixed point", key_extra=f"{backend}"))
                break
            outs[tag] = out
        else:
            # one canonicaliser object reused for a sequence of reactions (incl. the same reactant string again) behaves like fresh ones
            shared = CanonRSMI(backend=backend)
            seq = list(outs.items())
            for tag, want_out in seq + seq[:3]:
                vin = dict(the_variants(s, quick_cap=9))[tag]
                got = shared.canonicalise(vin).canonical_rsmi
                n += 1
                if got != want_out:
                    fails.append(Fail("canon_instance_reuse", f"{backend} {tag}: reused instance gives {got}", f"{want_out} (fresh instance)", key_extra=f"{backend}"))
                    break
            asym = asym_exact if backend == "nauty" else asym_wl
            if asym and len(set(outs.values())) > 1:
                vals = sorted(set(outs.values()))
                fails.append(Fail("canon_numbering_dependent", f"{backend}: {len(vals)} different outputs, e.g. {vals[0]} / {vals[1]}", "one output for every numbering and atom order", key_extra=f"{backend}"))
    return Outcome(nontrivial=bool(centre_maps(s)), outcome=f"bij{int(bij)}asym{int(bool(asym_exact))}{int(bool(asym_wl))}", fails=fails, transitions=n)


REAGENTS = ["O", "[Na+]", "CCO", "[OH-]"]


def expand_like_user(rsmi):
    """the harness' own reading of a partially mapped reaction: unmapped reactant atoms are atoms of the reaction
    (they get fresh, globally unused numbers); unmapped product atoms are not tracked"""
    r, p = er.split(rsmi)
    mr, mp = er.mol(r), er.mol(p)
    used = {a.GetAtomMapNum() for m in (mr, mp) for a in m.GetAtoms()}
    nxt = max(used) + 1000
    for a in mr.GetAtoms():
        if a.GetAtomMapNum() == 0:
            a.SetAtomMapNum(nxt)
            nxt += 1
    # drop unmapped product atoms (the canonicaliser documents that it works on mapped atoms)
    return Chem.MolToSmiles(mr, canonical=False) + ">>" + p


def check_canon_partial(case):
    """partially mapped inputs: an unmapped reagent on the reactant side"""
    from synkit.Chem.Reaction.canon_rsmi import CanonRSMI

    rid, s = case
    if rd_its(s) is None:
        return Outcome(skipped="unmapped_or_duplicate_maps")
    fails = []
    n = 0
    vs = the_variants(s)[:(3 if TIER[0] == 'quick' else 6)]
    for k, (tag, v) in enumerate(vs):
        r, p = er.split(v)
        for front in (True, False):
            reagent = REAGENTS[(k + front) % len(REAGENTS)]
            vin = (reagent + "." + r if front else r + "." + reagent) + ">>" + p
            base = rd_its(expand_like_user(vin))
            if base is None:
                continue
            for backend in ("wl", "nauty"):
                try:
                    out = CanonRSMI(backend=backend).canonicalise(vin).canonical_rsmi
                except Exception as e:
                    fails.append(Fail("canon_partial_exception", f"{backend} {tag}: {type(e).__name__}: {e}", "a canonical reaction", key_extra=backend))
                    return Outcome(nontrivial=True, outcome="partial", fails=fails, transitions=n)
                n += 1
                g = rd_its(out) if out and "None" not in out else None
                if g is None or not rd_equiv(base, g):
                    fails.append(Fail("canon_partial_not_equivalent", f"{backend} {tag} reagent {reagent} {'first' if front else 'last'}: {out}", f"atom-map-equivalent to {vin}", key_extra=backend))
                    return Outcome(nontrivial=True, outcome="partial", fails=fails, transitions=n)
    return Outcome(nontrivial=True, outcome="partial", fails=fails, transitions=n)


def check_std(case):
    from synkit.Chem.Reaction.standardize import Standardize

    rid, s = case
    fails = []
    n = 0
    try:
        ref = Standardize().fit(s)
    except ValueError:
        return Outcome(skipped="rejected_by_standardize")
    if ref is None:
        return Outcome(skipped="no_valid_molecules")
    n += 1
    if Standardize().fit(ref) != ref:
        fails.append(Fail("standardize_not_idempotent", f"{ref} -> {Standardize().fit(ref)}", "fixed point"))
    want = er.canon_rxn(s)
    for tag, v in the_variants(s):
        out = Standardize().fit(v)
        n += 1
        if out != ref:
            fails.append(Fail("standardize_variant", f"{tag}: {out}", ref, key_extra=tag))
            break
    return Outcome(nontrivial=True, outcome="std", fails=fails, transitions=n)


def side_labels(rsmi):
    pr = er.parse(rsmi)
    out = []
    for m in pr:
        out.append({a.GetAtomMapNum(): (a.GetSymbol(), a.GetIsAromatic(), a.GetTotalNumHs(), a.GetFormalCharge(), a.GetDegree()) for a in m.GetAtoms()})
    return out


def swap_product_maps(rsmi, a, b):
    r, p = er.split(rsmi)
    m = er.mol(p)
    for at in m.GetAtoms():
        k = at.GetAtomMapNum()
        if k == a:
            at.SetAtomMapNum(b)
        elif k == b:
            at.SetAtomMapNum(a)
    return r + ">>" + Chem.MolToSmiles(m, canonical=False)


def check_validator(case):
    from synkit.Chem.Reaction.aam_validator import AAMValidator

    rid, s = case
    if not er.fully_mapped_bijective(s):
        return Outcome(skipped="maps_not_bijective")
    fails = []
    n = 0
    for tag, v in the_variants(s):
        for method in ("RC", "ITS"):
            ok = AAMValidator.smiles_check(v, s, check_method=method)
            n += 1
            if ok is not True:
                fails.append(Fail("validator_rejects_renumbering", f"{method} {tag}: {ok}", "True", key_extra=method))
                break
        if fails:
            break
    # adversarial: swap two centre atoms that differ on both sides
    cm = centre_maps(s)
    L, R = side_labels(s)
    adv = 0
    for i, a in enumerate(cm):
        for b in cm[i + 1:]:
            if a in L and b in L and a in R and b in R and L[a][:4] != L[b][:4] and R[a][:4] != R[b][:4]:
                bad = swap_product_maps(s, a, b)
                if er.parse(bad) is None:
                    continue
                adv += 1
                if adv > 10:
                    break
                for method in ("ITS", "RC"):
                    ok = AAMValidator.smiles_check(bad, s, check_method=method)
                    n += 1
                    if ok is not False:
                        fails.append(Fail("validator_accepts_swapped_centre_atoms", f"{method}: maps {a}<->{b} exchanged on the product side: {ok}", "False", key_extra=f"{method}"))
                        break
    return Outcome(nontrivial=adv > 0, outcome=f"adv{min(adv, 9)}", fails=fails, transitions=n)


def counts(side):
    m = Chem.MolFromSmiles(side, _PS)
    if m is None:
        return None
    return er.formula_with_h(m)


def check_balance(case):
    from synkit.Chem.Reaction.balance_check import BalanceReactionCheck

    rid, s = case
    fails = []
    n = 0
    r, p = er.split(s)
    cands = [("original", s)]
    fr_r, fr_p = r.split("."), p.split(".")
    for i in range(len(fr_r)):
        if len(fr_r) > 1:
            cands.append((f"delete_r{i}", ".".join(fr_r[:i] + fr_r[i + 1:]) + ">>" + p))
        cands.append((f"duplicate_r{i}", r + "." + fr_r[i] + ">>" + p))
    for i in range(len(fr_p)):
        if len(fr_p) > 1:
            cands.append((f"delete_p{i}", r + ">>" + ".".join(fr_p[:i] + fr_p[i + 1:])))
        cands.append((f"duplicate_p{i}", r + ">>" + p + "." + fr_p[i]))
    cands.append(("proton_r", r + ".[H+]>>" + p))
    cands.append(("proton_p", r + ">>" + p + ".[H+]"))
    cands.append(("electron_pair", r + ".[H+]>>" + p + ".[H+]"))
    nb = 0
    for tag, v in cands:
        a, b = er.split(v)
        ca, cb = counts(a), counts(b)
        if ca is None or cb is None:
            continue
        want = ca == cb
        got = BalanceReactionCheck.rsmi_balance_check(v)
        n += 1
        nb += want
        if bool(got) != want:
            fails.append(Fail("balance_check", f"{tag}: {got} for {v[:120]}", f"{want} (counts {ca} vs {cb})", key_extra=tag))
            break
    return Outcome(nontrivial=nb > 0, outcome=f"bal{min(nb, 3)}", fails=fails, transitions=n)


def check_fix_aam(case):
    """zero-based map numbers made one-based (FixAAM.fix_aam_rsmi, NormalizeAAM.fit): the reaction must stay the same reaction; also when
    the fragment carrying map 0 is missing on one side (a by-product that was left out)"""
    import re
    from synkit.Chem.Reaction.fix_aam import FixAAM
    from synkit.Graph.ITS.normalize_aam import NormalizeAAM

    rid, s = case
    if not er.fully_mapped_bijective(s) or min(er.all_maps(s)) != 1:
        return Outcome(skipped="not_fully_mapped_from_1")
    minus1 = lambda t: re.sub(r":(\d+)\]", lambda m: f":{int(m.group(1)) - 1}]", t)
    fails = []
    n = 0
    variants = [("as_is", s)]
    r, p = er.split(s)
    for side_name, side, other in (("product", p, r), ("reactant", r, p)):
        frs = side.split(".")
        if len(frs) > 1:
            keep = [f for f in frs if not re.search(r":1\]", f)]
            if 0 < len(keep) < len(frs):
                t = (other + ">>" + ".".join(keep)) if side_name == "product" else (".".join(keep) + ">>" + other)
                variants.append((f"map0_fragment_missing_on_{side_name}_side", t))
    for tag, t in variants:
        want = rd_its(t)
        if want is None:
            continue
        for fname, fn in (("FixAAM.fix_aam_rsmi", FixAAM.fix_aam_rsmi), ("NormalizeAAM.fit", lambda x: NormalizeAAM().fit(x))):
            if fname == "NormalizeAAM.fit" and tag != "as_is":
                continue  # its centre-based rewrite is only held to balanced input
            try:
                out = fn(minus1(t))
                got = rd_its(out) if out else None
                ok = got is not None and rd_equiv(got, want) and er.canon_rxn(out) == er.canon_rxn(t)
            except Exception as e:
                out, ok = f"{type(e).__name__}: {e}", False
            n += 1
            if not ok:
                fails.append(Fail("fix_aam_changes_reaction", f"{fname} {tag}: {str(out)[:200]}", f"the reaction {t[:200]} with every map number one higher", key_extra=f"{fname},{tag}"))
    return Outcome(nontrivial=len(variants) > 1, outcome=f"v{len(variants)}", fails=fails, transitions=n)


def subchecks(tier, seed):
    TIER[0], SEED[0] = tier, seed
    return [
        Sub("canon_rsmi", gen, check_canon, key=lambda c: c[0], rule=RULE[tier]),
        Sub("canon_rsmi_partial", gen, check_canon_partial, key=lambda c: c[0], rule="an unmapped reagent added to the reactant side (first / last), 6 renumbering variants each"),
        Sub("standardize", gen, check_std, key=lambda c: c[0], rule=RULE[tier]),
        Sub("aam_validator", gen, check_validator, key=lambda c: c[0], rule=RULE[tier]),
        Sub("fix_aam", gen, check_fix_aam, key=lambda c: c[0], rule="every fully mapped corpus reaction written zero-based (and with the fragment carrying map 0 left out on one side) through FixAAM.fix_aam_rsmi and NormalizeAAM.fit"),
        Sub("balance", gen, check_balance, key=lambda c: c[0], rule=RULE[tier]),
    ]


def run(tier, seed):
    acc = run_subs(subchecks(tier, seed), tier, seed)
    return acc, True, {}
