"""C15 — reaction-network store consistent under every history (E2).

Explicit-state breadth-first search over operation histories executed on the
real ``CRNHyperGraph``; after every transition the object is compared with the
reference model ``RefStore`` and with a copy taken before the transition.
"""
from __future__ import annotations

import hashlib
import os
from collections import Counter

from mc.core import Acc, Fail, bfs_explore
from mc.ref_store import RefStore

PROPERTY = "C15"
ASSUMPTIONS = [
    "alphabet: species {A,B,C}, 8 reaction shapes (incl. source, sink, trivial, catalyst, coefficient 2), rules {r,q}, "
    "explicit ids {r_1,r_2,q_1,x}, two fixed 'other' networks for merge",
    "states merged on a canonical snapshot containing every attribute of the object (edges, species, both indices incl. empty "
    "entries, id counters, molecule labels); merged states therefore have equal futures",
    "the reference model adopts the id the implementation returns and only requires it to be fresh",
]
RULE = {
    "quick": "BFS over all operation histories of depth<=4 (menu of ~40 operations per state, incl. merging three partner networks, one of them with two consecutive generator-pattern ids, and attaching a molecule label under a name that may be a live reaction id) on the real CRNHyperGraph; "
    "state = canonical snapshot; non-trivial = transition that reached a new state",
    "thorough": "as quick with depth<=5 (depth 6 on the sub-alphabet without merge/copy/assign_mol with VERIF_C15_DEPTH6=1), plus a second live "
    "network that is merged and then edited (aliasing)",
}

SHAPES = {
    "A>B": ({"A": 1}, {"B": 1}),
    "B>A": ({"B": 1}, {"A": 1}),
    "2A>C": ({"A": 2}, {"C": 1}),
    "AB>C": ({"A": 1, "B": 1}, {"C": 1}),
    "C>0": ({"C": 1}, {}),
    "0>A": ({}, {"A": 1}),
    "A>A": ({"A": 1}, {"A": 1}),
    "AB>A": ({"A": 1, "B": 1}, {"A": 1}),
}
OTHERS = {
    "o1": [("r_1", "r", "A>B"), ("q_1", "q", "B>A")],
    "o2": [("r_2", "r", "2A>C")],
    # two ids of the generator's own pattern in a row: a replacement id generated for the first may be the second's own id
    "o3": [("r_1", "r", "A>B"), ("r_2", "r", "AB>C")],
}
STRS = {"s1": ("A+B>>C | rule=q", "q", "AB>C"), "s2": ("2A>>B", "r", None)}
FULL = True  # reduced alphabet when False (depth-6 layer)


def menu(ref: RefStore, reduced=False):
    ops = []
    for sh in SHAPES:
        ops.append(("add", sh, "r", None))
    for sh in ("A>B", "AB>C", "0>A"):
        ops.append(("add", sh, "q", None))
    for sh in ("A>B", "AB>C"):
        for rule, eid in (("r", "r_1"), ("r", "r_2"), ("q", "q_1"), ("r", "x")):
            ops.append(("add", sh, rule, eid))
    if not reduced:
        ops.append(("addstr", "s1"))
        ops.append(("addstr", "s2"))
    for eid in sorted(ref.rx):
        ops.append(("rm", eid))
    ops.append(("rm", "zz"))
    for sp in "ABC":
        ops.append(("rmsp", sp, True))
        ops.append(("rmsp", sp, False))
    if not reduced:
        for o in OTHERS:
            ops.append(("merge", o, True))
            ops.append(("merge", o, False))
        ops.append(("merge", "self", True))
        ops.append(("merge", "self", False))
        ops.append(("copy",))
        ops.append(("mol", "A", "m1"))
        ops.append(("mol", "B", "m2"))
        ops.append(("mol", "r_1", "m3"))  # a name that may be a live reaction id but is never a species
    return ops


def make_other(name):
    from synkit.CRN.Hypergraph.hypergraph import CRNHyperGraph

    H = CRNHyperGraph()
    for eid, rule, sh in OTHERS[name]:
        l, r = SHAPES[sh]
        H.add_rxn(dict(l), dict(r), rule=rule, edge_id=eid)
    return H


def snap(H):
    return (
        tuple(
            sorted(
                (k, e.id, e.rule, tuple(sorted(e.reactants.items())), tuple(sorted(e.products.items())))
                for k, e in H.edges.items()
            )
        ),
        tuple(sorted(H.species)),
        tuple(sorted((s, tuple(sorted(v))) for s, v in H.species_to_in_edges.items())),
        tuple(sorted((s, tuple(sorted(v))) for s, v in H.species_to_out_edges.items())),
        tuple(sorted((k, v) for k, v in H._rule_counters.items() if v)),
        tuple(sorted(H.species_to_mol.items())),
    )


def apply_op(H, ref: RefStore, op, fails, others=None):
    """Apply op to the implementation and the reference.  Returns
    (H, status) with status in {'ok','refused','bad'}; appends to fails."""
    kind = op[0]
    pre_ids = set(ref.rx)
    pre = snap(H)

    def refused(exc_types, doc):
        # documented refusal: must raise and leave the object unchanged
        def run(thunk):
            try:
                thunk()
            except exc_types:
                if snap(H) != pre:
                    fails.append(Fail("refusal_mutates", f"{op}: state changed by a refused call", "unchanged"))
                    return "bad"
                return "refused"
            fails.append(Fail("missing_refusal", f"{op}: no exception", doc))
            return "bad"

        return run

    if kind in ("add", "addstr"):
        if kind == "add":
            _, sh, rule, eid = op
            l, r = SHAPES[sh]
            if eid is not None and eid in pre_ids:
                st = refused((KeyError,), "KeyError for a live explicit id")(
                    lambda: H.add_rxn(dict(l), dict(r), rule=rule, edge_id=eid)
                )
                return H, st
            e = H.add_rxn(dict(l), dict(r), rule=rule, edge_id=eid)
        else:
            s, rule, sh = STRS[op[1]]
            if sh is None:
                l, r = {"A": 2}, {"B": 1}
            else:
                l, r = SHAPES[sh]
            e = H.add_rxn_from_str(s)
        got = e.id
        if got in pre_ids:
            fails.append(Fail("id_reuse", f"{op}: returned id {got!r} is live", "a fresh id"))
            return H, "bad"
        if eid_of(op) is not None and got != eid_of(op):
            fails.append(Fail("explicit_id_ignored", f"{op}: returned {got!r}", eid_of(op)))
            return H, "bad"
        ref.add(got, rule, l, r)
        return H, "ok"
    if kind == "rm":
        eid = op[1]
        if eid not in pre_ids:
            return H, refused((KeyError,), "KeyError for an absent id")(lambda: H.remove_rxn(eid))
        H.remove_rxn(eid)
        ref.remove_rxn(eid)
        return H, "ok"
    if kind == "rmsp":
        _, sp, prune = op
        present = sp in ref.occurring() or sp in H.species
        if not present:
            return H, refused((KeyError,), "KeyError for an absent species")(
                lambda: H.remove_species(sp, prune_orphans=prune)
            )
        H.remove_species(sp, prune_orphans=prune)
        ref.remove_species(sp, prune)
        if not prune and sp not in H.species:
            fails.append(Fail("kept_species_dropped", f"{op}: {sp} not in species", "kept"))
            return H, "bad"
        if prune and sp in H.species:
            fails.append(Fail("pruned_species_kept", f"{op}: {sp} still in species", "dropped"))
            return H, "bad"
        if prune:
            ref.ever_kept.discard(sp)
        return H, "ok"
    if kind == "merge":
        _, oname, prefix = op
        other = H if oname == "self" else (others[oname] if others and oname in others else make_other(oname))
        want = Counter()
        for e in other.edge_list():
            want[(e.rule, tuple(sorted(e.reactants.items())), tuple(sorted(e.products.items())))] += 1
        H.merge(other, prefix_edges=prefix)
        new_ids = set(H.edges) - pre_ids
        got = Counter()
        for k in new_ids:
            e = H.edges[k]
            got[(e.rule, tuple(sorted(e.reactants.items())), tuple(sorted(e.products.items())))] += 1
        if got != want or len(H.edges) != len(pre_ids) + sum(want.values()):
            fails.append(Fail("merge_lost_or_overwrote", f"{op}: new={sorted(new_ids)} edges={sorted(H.edges)}", f"{sum(want.values())} new reactions"))
            return H, "bad"
        for k in new_ids:
            e = H.edges[k]
            ref.add(k, e.rule, dict(e.reactants.items()), dict(e.products.items()))
        return H, "ok"
    if kind == "copy":
        H2 = H.copy()
        if snap(H2) != pre:
            fails.append(Fail("copy_differs", "copy() snapshot differs from the original", "equal"))
            return H2, "bad"
        return H2, "ok"
    if kind == "mol":
        _, sp, m = op
        if sp not in H.species:
            return H, refused((KeyError,), "KeyError for an absent species")(lambda: H.assign_mol(sp, m))
        H.assign_mol(sp, m)
        ref.mol[sp] = m
        return H, "ok"
    raise AssertionError(op)


def eid_of(op):
    return op[3] if op[0] == "add" else None


def invariant(H, ref: RefStore, fails, ctx):
    # reactions
    if set(H.edges) != set(ref.rx):
        fails.append(Fail("reaction_set", f"{ctx}: ids {sorted(H.edges)}", f"{sorted(ref.rx)}"))
        return
    for eid, (rule, l, r) in ref.rx.items():
        e = H.edges[eid]
        if e.id != eid or e.rule != rule or dict(e.reactants.items()) != dict(l) or dict(e.products.items()) != dict(r):
            fails.append(Fail("reaction_content", f"{ctx}: {eid} -> {e!r}", f"{rule}: {dict(l)} >> {dict(r)}"))
            return
    occ = ref.occurring()
    sp = set(H.species)
    if not occ <= sp or not (sp - occ) <= ref.ever_kept:
        fails.append(Fail("species_set", f"{ctx}: species={sorted(sp)}", f"occurring={sorted(occ)} (+kept {sorted(ref.ever_kept)})"))
    labels = sp | occ | set(H.species_to_in_edges.keys()) | set(H.species_to_out_edges.keys())
    for s in sorted(labels):
        i = set(H.species_to_in_edges.get(s, ()))
        o = set(H.species_to_out_edges.get(s, ()))
        if i != ref.producers(s) or o != ref.consumers(s):
            fails.append(
                Fail("index", f"{ctx}: {s} in={sorted(i)} out={sorted(o)}", f"in={sorted(ref.producers(s))} out={sorted(ref.consumers(s))}")
            )
            break
    if not set(H.species_to_mol) <= sp:
        fails.append(Fail("mol_labels", f"{ctx}: labels for {sorted(H.species_to_mol)}", f"subset of {sorted(sp)}"))
    # incidence matrix, both forms
    so, eo, mat = H.incidence_matrix(sparse=False)
    so2, eo2, mp = H.incidence_matrix(sparse=True)
    ok = so == sorted(sp) and so2 == so and eo == sorted(ref.rx) and eo2 == eo and mat.shape == (len(so), len(eo))
    if ok:
        for a, s in enumerate(so):
            for b, eid in enumerate(eo):
                _, l, r = ref.rx[eid]
                want = r.get(s, 0) - l.get(s, 0)
                if int(mat[a, b]) != want or mp.get((s, eid), 0) != want:
                    ok = False
        for (s, eid) in mp:
            if s not in so or eid not in eo:
                ok = False
    if not ok:
        fails.append(Fail("incidence", f"{ctx}: species={so} edges={eo} dense={mat.tolist()} sparse={sorted(mp.items())}", "products - reactants"))


def observe(H):
    """Every read-only query of the store (so that lazily filled caches, if any, are filled)."""
    so, eo, mat = H.incidence_matrix(sparse=False)
    so2, eo2, mp = H.incidence_matrix(sparse=True)
    return (tuple(H.species_list()), tuple(e.id for e in sorted(H.edge_list(), key=lambda e: e.id)), tuple(so), tuple(eo), mat.tolist(), tuple(sorted(mp.items())), len(H), repr(H))


def build(hist, reduced=False, observing=False):
    from synkit.CRN.Hypergraph.hypergraph import CRNHyperGraph

    H, ref = CRNHyperGraph(), RefStore()
    sink = []
    for op in hist:
        if observing:
            observe(H)
        H, st = apply_op(H, ref, tuple(op), sink)
    if observing:
        observe(H)
    return H, ref


REDUCED = False


def expand(hist):
    from mc.core import quiet

    quiet()
    try:
        H0, ref0 = build(hist, REDUCED)
    except Exception as e:  # a history that was replayable when it was discovered no longer is
        return [(["replay"], None, [Fail("history_not_replayable", f"{hist}: {type(e).__name__}: {e}", "the same history replays on a fresh object")], False)]
    out = []
    for op in menu(ref0, REDUCED):
        fails = []
        try:
            H, ref = build(hist, REDUCED)
        except Exception as e:
            out.append((list(op), None, [Fail("history_not_replayable", f"{hist}: {type(e).__name__}: {e}", "the same history replays on a fresh object")], False))
            continue
        before = snap(H)
        cpy = H.copy()
        try:
            H, st = apply_op(H, ref, op, fails)
        except Exception as e:
            fails.append(Fail("unexpected_exception", f"{op}: {type(e).__name__}: {e}", "operation succeeds"))
            st = "bad"
        key = None
        if st == "ok":
            invariant(H, ref, fails, f"after {op}")
            # copy taken before the transition is unaffected
            if snap(cpy) != before:
                fails.append(Fail("copy_affected", f"{op}: copy changed when the original was edited", "copy unchanged"))
            # the same operation on the copy gives the same state and leaves the original alone
            after = snap(H)
            if op[0] != "copy":
                f2 = []
                try:
                    cpy2, st2 = apply_op(cpy, ref0.clone(), op, f2)
                except Exception as e:
                    cpy2, st2 = cpy, f"{type(e).__name__}: {e}"
                if st2 != "ok" or snap(cpy2) != after:
                    fails.append(Fail("copy_diverges", f"{op}: copy reaches a different state", "same state as the original"))
                if snap(H) != after:
                    fails.append(Fail("original_affected", f"{op}: original changed when the copy was edited", "unchanged"))
            # histories interleaved with read-only queries reach the same state and answer the queries identically
            fq = []
            try:
                Hq, refq = build(hist, REDUCED, observing=True)
                Hq, stq = apply_op(Hq, refq, op, fq)
            except Exception as e:
                Hq, stq = H, f"{type(e).__name__}: {e}"
            if stq != "ok" or snap(Hq) != after or observe(Hq) != observe(H):
                fails.append(Fail("query_dependent", f"{op}: state/answers differ when read-only queries were interleaved", "queries have no effect"))
            else:
                invariant(Hq, refq, fails, f"(queried history) after {op}")
            if not fails:
                key = hashlib.sha1(repr((after, tuple(sorted(ref.ever_kept)))).encode()).hexdigest()[:20]
        elif st == "refused":
            key = None
        out.append((list(op), key, fails, st == "ok"))
    return out


def alias_layer(depth):
    """Second live network: merge `other` into H, then edit `other` (or H) and
    check that the partner is unaffected.  All histories of `depth` edits."""
    import itertools
    from synkit.CRN.Hypergraph.hypergraph import CRNHyperGraph

    acc = Acc()
    edits = [("rmsp", "A", True), ("rmsp", "B", False), ("rm", "r_1"), ("add", "AB>C", "r", None), ("rmsp", "C", True)]
    n_detail = 0
    for oname in OTHERS:
        for prefix in (True, False):
            for target in ("other", "self"):
                for seq in itertools.product(edits, repeat=depth):
                    H, ref = CRNHyperGraph(), RefStore()
                    fails = []
                    apply_op(H, ref, ("add", "A>B", "r", "x"), fails)
                    other = make_other(oname)
                    oref = RefStore()
                    for eid, rule, sh in OTHERS[oname]:
                        oref.add(eid, rule, *SHAPES[sh])
                    H, st = apply_op(H, ref, ("merge", oname, prefix), fails, others={oname: other})
                    tgt, tref, oth, othref = (other, oref, H, ref) if target == "other" else (H, ref, other, oref)
                    keep = snap(oth)
                    for op in seq:
                        if op[0] == "rm" and op[1] not in tref.rx:
                            continue
                        if op[0] == "rmsp" and op[1] not in tgt.species:
                            continue
                        apply_op(tgt, tref, op, fails)
                    invariant(oth, othref, fails, f"partner after editing {target}")
                    if snap(oth) != keep:
                        fails.append(Fail("merge_aliasing", f"merge({oname},prefix={prefix}); edits on {target}: {seq} changed the partner network", "partner unchanged"))
                    acc.evaluations += 1
                    acc.states += 1
                    acc.transitions += 1 + len(seq)
                    acc.nontrivial += 1
                    s = acc.sub("merge_alias")
                    s["cases"] += 1
                    s["transitions"] += 1 + len(seq)
                    seen = set()
                    for f in fails:
                        if f.tag in seen:
                            continue
                        seen.add(f.tag)
                        s["violations"] += 1
                        v = {"sub": f"merge_alias/{f.tag}", "key": f"{oname}|{prefix}|{target}|{list(seq)}", "observed": f.observed, "expected": f.expected}
                        if n_detail < 20:
                            v["case"] = {"other": oname, "prefix": prefix, "target": target, "edits": [list(x) for x in seq]}
                            v["subcheck"] = "merge_alias"
                            n_detail += 1
                        acc.violations.append(v)
    return acc


def run(tier, seed):
    global REDUCED
    depth = 4 if tier == "quick" else 5
    REDUCED = False
    acc = bfs_explore(expand, depth, "history_bfs")
    if tier != "quick" and os.environ.get("VERIF_C15_DEPTH6"):
        # depth 6 on the reduced alphabet (no merge/copy/assign): ~10 min extra, opt-in
        REDUCED = True
        acc.merge(bfs_explore(expand, 6, "history_bfs_reduced"))
        REDUCED = False
    acc.merge(alias_layer(2 if tier == "quick" else 3))
    return acc, True, {"bfs_depth": depth}


def replay(v):
    from mc.core import quiet

    quiet()
    case = v["case"]
    if "history" not in case:
        print("alias-layer case:", case)
        return 1
    hist = [tuple(x) for x in case["history"]]
    res = []
    for _ in range(2):
        out = expand(tuple(hist[:-1]))
        got = [(f.tag, f.observed) for (op, key, fails, nt) in out if tuple(op) == hist[-1] for f in fails]
        res.append(got)
    if res[0] != res[1]:
        print("HARNESS-ERROR: replay not reproducible")
        return 2
    for tag, obs in res[0]:
        print(f"  {tag}: {obs}")
    if res[0]:
        print(f"VIOLATION property=C15 replay=(this file) reproduced")
        return 1
    print("replay: history passes")
    return 0
