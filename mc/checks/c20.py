"""C20 — siphons, traps, firing rule, pathway realizability (E1 + exhaustive reachability)."""
from __future__ import annotations

import itertools
import zlib

from mc import enum_crn as ec
from mc.core import Fail, Outcome, Sub, run_subs
from mc.checks.c17 import SCHEMES, scheme_lists

PROPERTY = "C20"
ASSUMPTIONS = [
    "networks over species {A,B,C} with <=3 reactions (quick: unit coefficients, all labelled; thorough: additionally coefficients <=2 for <=2 reactions; 4 species x 2 reactions)",
    "siphon/trap oracle: the definitions evaluated on every non-empty species subset, minimality by subset test",
    "realizability oracle: exhaustive search over (marking, remaining firings); all species counts start and end at zero; complete because the space is finite and the implementation's max_states bound is asserted not to be reached",
    "markings {0..2}^s for the firing rule",
]
RULE = {
    "quick": "every labelled network with <=3 unit-coefficient reactions over {A,B,C} (45 759) and every open system source+sink+2 two-sided reactions over {A,B} with coefficients <=2 (2 080); for each: all species subsets (siphons, traps, each max_size; on the network object, its bipartite graph, that graph inserted in the opposite order, and the network with an extra registered species that occurs in no reaction; analyser asked twice), "
    "all markings {0,1,2}^s x transitions (enabled/fire), all flows {0,1,2}^r (realizability); non-trivial = has a siphon or trap, resp. flow realizable",
    "thorough": "the quick family with flows {0..3}^r, plus coefficients<=2 with <=2 reactions and 4 species x 2 reactions",
}


def gen(tier, seed):
    for net in ec.networks(3, 3, 1):
        yield ec.net_str(net)
    # open systems over {A,B} with coefficients <=2: source, sink and two further two-sided reactions
    # (flows that are realizable only after scaling live here)
    rx2 = ec.reactions(2, 2, allow_empty_side=False)
    for i in range(len(rx2)):
        for j in range(i, len(rx2)):
            yield ec.net_str((((0, 0), (1, 0)), ((1, 0), (0, 0)), rx2[i], rx2[j]))
    if tier != "quick":
        for net in ec.networks(3, 2, 2, quotient=True):
            yield ec.net_str(net)
        for net in ec.networks(4, 2, 1, quotient=True):
            yield ec.net_str(net)
    for s in ["∅>>A; A>>B; B>>∅", "∅>>A; 2A>>B; B>>∅", "A>>B; B>>A; B>>C", "∅>>A; A+B>>2B; B>>∅", "A+B>>C; C>>A+B; ∅>>A; ∅>>B; C>>∅"]:
        yield s


FLOWMAX = 2
MAX_STATES = 20000  # the oracle asserts <= 10^4 reachable states on these sizes, so this bound is never reached by a correct search


def minimal(sets):
    return {s for s in sets if not any(t < s for t in sets)}


def check(case):
    from synkit.CRN.Petri.structure import find_siphons, find_traps
    from synkit.CRN.Petri.analyzer import PetriAnalyzer
    from synkit.CRN.Petri.net import PetriNet
    from synkit.CRN.Path.realizability import PathwayRealizability, hypergraph_to_pr_inputs
    from synkit.CRN.Hypergraph.conversion import hypergraph_to_bipartite

    net = ec.parse_net(case)
    rules, ids = scheme_lists(case, len(net))
    H = ec.build_hypergraph(net, rules=rules, ids=ids)
    return judge(H, net)


def check_edit(case):
    """analyse, edit the same object in place, analyse again"""
    from mc import edit_layer as el

    from synkit.CRN.Petri.analyzer import PetriAnalyzer

    net = ec.parse_net(case["net"])
    H = ec.build_hypergraph(net)
    judge(H, net)
    an = PetriAnalyzer(H).compute_siphons_traps()  # an analyser object that lives across the edit
    net2 = el.apply_edit(H, net, case["edit"])
    if not net2:
        return Outcome(skipped="network_became_empty")
    out = judge(H, net2)
    for f in out.fails:
        f.tag = "after_edit_" + f.tag
    if not out.fails:
        names = ec.SPECIES
        used = sorted({names[i] for l, r in net2 for i in range(len(l)) if l[i] or r[i]})
        rx = [({names[i] for i, c in enumerate(l) if c}, {names[i] for i, c in enumerate(r) if c}) for l, r in net2]
        subsets = [frozenset(c) for k in range(1, len(used) + 1) for c in itertools.combinations(used, k)]
        sip = minimal({S for S in subsets if all((not (p & S)) or (r & S) for r, p in rx)})
        trp = minimal({S for S in subsets if all((not (r & S)) or (p & S) for r, p in rx)})
        an.compute_siphons_traps()
        if {frozenset(x) for x in an.siphons} != sip or {frozenset(x) for x in an.traps} != trp:
            out.fails.append(Fail("after_edit_analyzer_reuse", f"the analyser created before the edit, asked again: siphons={an.siphons} traps={an.traps}", f"siphons={sorted(map(sorted, sip))} traps={sorted(map(sorted, trp))} (the network as it is now)"))
    return out


def _judge(H, net):
    from synkit.CRN.Petri.structure import find_siphons, find_traps
    from synkit.CRN.Petri.analyzer import PetriAnalyzer
    from synkit.CRN.Petri.net import PetriNet
    from synkit.CRN.Path.realizability import PathwayRealizability, hypergraph_to_pr_inputs
    from synkit.CRN.Hypergraph.conversion import hypergraph_to_bipartite

    names = ec.SPECIES
    used = sorted({names[i] for l, r in net for i in range(len(l)) if l[i] or r[i]})
    rx = [({names[i] for i, c in enumerate(l) if c}, {names[i] for i, c in enumerate(r) if c}) for l, r in net]
    fails = []
    ncalls = 0
    # ---------- siphons / traps on every subset
    subsets = [frozenset(c) for k in range(1, len(used) + 1) for c in itertools.combinations(used, k)]
    sip = [S for S in subsets if all((not (p & S)) or (r & S) for r, p in rx)]
    trp = [S for S in subsets if all((not (r & S)) or (p & S) for r, p in rx)]
    bip = hypergraph_to_bipartite(H)
    rev = type(bip)()  # the same bipartite graph, nodes and arcs inserted in the opposite order (hand-built / relabelled inputs)
    rev.graph.update(bip.graph)
    for v, d in reversed(list(bip.nodes(data=True))):
        rev.add_node(v, **dict(d))
    for u, v, d in reversed(list(bip.edges(data=True))):
        rev.add_edge(u, v, **dict(d))
    Hiso = H.copy()  # the same reactions plus a registered species that occurs in none of them: by the definitions it is a siphon and a trap on its own
    Hiso.add_rxn({"Zz9": 1}, {"Zy9": 1}, edge_id="tmp_iso")
    Hiso.remove_species("Zz9", prune_orphans=False)
    Hiso.remove_rxn("tmp_iso")
    iso_ok = "Zz9" in Hiso.species and len(Hiso.edges) == len(H.edges)
    for view, obj in (("hypergraph", H), ("bipartite", bip), ("bipartite_reversed_insertion", rev)) + ((("with_isolated_species", Hiso),) if iso_ok else ()):
        for k in [None] + list(range(1, len(used) + 1)):
            want_s = minimal({S for S in sip if k is None or len(S) <= k})
            want_t = minimal({S for S in trp if k is None or len(S) <= k})
            if view == "with_isolated_species":
                want_s = want_s | {frozenset({"Zz9"})}
                want_t = want_t | {frozenset({"Zz9"})}
            got_s = find_siphons(obj, max_size=k)
            got_t = find_traps(obj, max_size=k)
            ncalls += 2
            gs = {frozenset(x) for x in got_s}
            gt = {frozenset(x) for x in got_t}
            if gs != want_s or len(got_s) != len(gs):
                fails.append(Fail("siphons", f"{view} max_size={k}: {sorted(map(sorted, got_s))}", f"{sorted(map(sorted, want_s))}", key_extra=f"{view},{k}"))
            if gt != want_t or len(got_t) != len(gt):
                fails.append(Fail("traps", f"{view} max_size={k}: {sorted(map(sorted, got_t))}", f"{sorted(map(sorted, want_t))}", key_extra=f"{view},{k}"))
    an = PetriAnalyzer(H).compute_siphons_traps()
    if {frozenset(x) for x in an.siphons} != minimal(set(sip)) or {frozenset(x) for x in an.traps} != minimal(set(trp)):
        fails.append(Fail("analyzer", f"siphons={an.siphons} traps={an.traps}", f"siphons={sorted(map(sorted, minimal(set(sip))))} traps={sorted(map(sorted, minimal(set(trp))))}"))
    else:
        an.compute_siphons_traps()  # the same analyser object asked again
        if {frozenset(x) for x in an.siphons} != minimal(set(sip)) or {frozenset(x) for x in an.traps} != minimal(set(trp)) or len(an.siphons) != len(minimal(set(sip))) or len(an.traps) != len(minimal(set(trp))):
            fails.append(Fail("analyzer_reuse", f"second pass: siphons={an.siphons} traps={an.traps}", "the first answer of the same object"))
    # ---------- firing rule
    pn = PetriNet()
    pre = [ec.side_dict(l) for l, r in net]
    post = [ec.side_dict(r) for l, r in net]
    for j in range(len(net)):
        pn.add_transition(f"t{j}", dict(pre[j]), dict(post[j]))
    for mk in itertools.product(range(3), repeat=len(used)):
        m = dict(zip(used, mk))
        for j in range(len(net)):
            en = all(m.get(p, 0) >= w for p, w in pre[j].items())
            got = pn.enabled(dict(m), f"t{j}")
            ncalls += 1
            if bool(got) != en:
                fails.append(Fail("enabled", f"marking={m} t{j}: {got}", str(en), key_extra=f"{mk},{j}"))
            m0 = dict(m)
            m2 = pn.fire(m0, f"t{j}")
            want = {p: m.get(p, 0) - pre[j].get(p, 0) + post[j].get(p, 0) for p in used}
            if {p: m2.get(p, 0) for p in used} != want or m0 != m or set(m2) - set(used):
                fails.append(Fail("fire", f"marking={m} t{j}: {m2}", str(want), key_extra=f"{mk},{j}"))
    # ---------- realizability for every flow
    eids = sorted(H.edges)  # reaction k of `net` has the k-th id in insertion order
    ids_in_order = [e.id for e in H.edge_list()]
    n_real = 0
    for fl in itertools.product(range(FLOWMAX + 1), repeat=len(net)):
        flow = {ids_in_order[j]: fl[j] for j in range(len(net))}
        want, nstates = oracle_realizable(pre, post, fl, used)
        assert nstates <= 10000
        V, E, F = hypergraph_to_pr_inputs(H, flow)
        pr = PathwayRealizability().load_hypergraph_and_flow(V, E, F).build_petri_net_from_flow()
        ok, cert = pr.is_realizable(max_states=2 * nstates + 20)  # a correct search visits at most `nstates` states
        ncalls += 1
        if ok:
            bad = verify_cert(pre, post, fl, used, cert, ids_in_order)
            if bad:
                fails.append(Fail("certificate", f"flow={fl} cert={cert}: {bad}", "a firing sequence realising the flow", key_extra=str(fl)))
            if pr.certificate != cert:
                fails.append(Fail("certificate_attr", f"flow={fl}: {pr.certificate} vs {cert}", "same", key_extra=str(fl)))
        if bool(ok) != want:
            fails.append(Fail("realizable", f"flow={fl}: {ok}", f"{want} (exhaustive search, {nstates} states)", key_extra=str(fl)))
            break  # one failing flow per network is enough; keeps a broken search from costing hours
        n_real += want
        # ---- query histories on the same object: another query first, then is_realizable again
        if max(fl) <= 1 and any(fl):
            want2, n2 = oracle_realizable(pre, post, tuple(2 * x for x in fl), used)
            from synkit.CRN.Path.realizability import RealizabilityConfig

            for first in ("scaled", "borrow", "konig", "real"):
                # the object's own search bound: never reached by a correct search on these sizes (scaled flow included)
                cfg = RealizabilityConfig(max_states=2 * max(nstates, n2) + 20, max_depth=10_000)
                pr2 = PathwayRealizability(cfg).load_hypergraph_and_flow(V, E, F).build_petri_net_from_flow()
                if first == "scaled":
                    sk = pr2.is_scaled_realizable(k_max=2)
                    wsk = (True, 1) if want else ((True, 2) if want2 else (False, None))
                    if tuple(sk) != wsk:
                        fails.append(Fail("scaled", f"flow={fl}: {sk}", str(wsk), key_extra=str(fl)))
                elif first == "borrow":
                    pr2.is_borrow_realizable(max_borrow_each=1)
                elif first == "konig":
                    kz = pr2.is_realizable_via_konig()
                    if kz and not want and balanced(pre, post, fl, used):
                        fails.append(Fail("konig_unsound", f"flow={fl}: acyclic Konig graph but no ordering exists", "sufficient test", key_extra=str(fl)))
                else:
                    pr2.is_realizable()
                ok2, cert2 = pr2.is_realizable(max_states=2 * nstates + 20)
                ncalls += 2
                if bool(ok2) != want:
                    fails.append(Fail("realizable_after_" + first, f"flow={fl}: {ok2}", f"{want}", key_extra=str(fl)))
                elif ok2:
                    bad = verify_cert(pre, post, fl, used, cert2, ids_in_order)
                    if bad:
                        fails.append(Fail("certificate_after_" + first, f"flow={fl} cert={cert2}: {bad}", "a firing sequence realising the flow", key_extra=str(fl)))
    nt = bool(sip or trp)
    return Outcome(nontrivial=nt, outcome=f"sip{len(minimal(set(sip)))}trap{len(minimal(set(trp)))}real{min(n_real, 9)}", fails=fails, transitions=ncalls)


def oracle_realizable(pre, post, fl, used):
    """Exhaustive search of the whole space of (marking, remaining firings) pairs reachable from the zero marking.
    Returns (an ordering exists that ends at zero with nothing left to fire, size of the reachable space)."""
    start = (tuple(0 for _ in used), tuple(fl))
    goal = (tuple(0 for _ in used), tuple(0 for _ in fl))
    seen = {start}
    stack = [start]
    idx = {p: i for i, p in enumerate(used)}
    while stack:
        m, rem = stack.pop()
        for j, k in enumerate(rem):
            if k == 0:
                continue
            if any(m[idx[p]] < w for p, w in pre[j].items()):
                continue
            m2 = list(m)
            for p, w in pre[j].items():
                m2[idx[p]] -= w
            for p, w in post[j].items():
                m2[idx[p]] += w
            st = (tuple(m2), rem[:j] + (k - 1,) + rem[j + 1 :])
            if st not in seen:
                seen.add(st)
                stack.append(st)
    return goal in seen, len(seen)


def balanced(pre, post, fl, used):
    return all(sum(fl[j] * (post[j].get(p, 0) - pre[j].get(p, 0)) for j in range(len(fl))) == 0 for p in used)


def coupled_cycles(tier, seed):
    """6 species in three pairs (A,B),(C,D),(E,F); six reactions X(+extra)>>Y closing each pair both ways, every
    choice of an optional extra reactant from the other pairs.  Minimal siphons/traps of different sizes coexist."""
    names = "ABCDEF"
    pairs = [(0, 1), (2, 3), (4, 5)]
    slots = []
    for a, b in pairs:
        others = [x for x in range(6) if x not in (a, b)]
        slots.append([(a, b, e) for e in [None] + others])
        slots.append([(b, a, e) for e in [None] + others])
    for combo in itertools.product(*slots):
        if tier == "quick" and sum(1 for c in combo if c[2] is not None) > 3:
            continue
        yield ";".join(f"{names[a]}{('+' + names[e]) if e is not None else ''}>>{names[b]}" for a, b, e in combo)


def check_structural(case):
    """siphons / traps only (no markings, no flows) for larger structured networks"""
    from synkit.CRN.Petri.structure import find_siphons, find_traps
    from synkit.CRN.Hypergraph.conversion import rxns_to_hypergraph

    lines = case.split(";")
    H = rxns_to_hypergraph(lines)
    rx = []
    for ln in lines:
        l, r = ln.split(">>")
        rx.append((set(l.split("+")), set(r.split("+"))))
    used = sorted({x for r, p in rx for x in r | p})
    subsets = [frozenset(c) for k in range(1, len(used) + 1) for c in itertools.combinations(used, k)]
    sip = minimal({S for S in subsets if all((not (p & S)) or (r & S) for r, p in rx)})
    trp = minimal({S for S in subsets if all((not (r & S)) or (p & S) for r, p in rx)})
    fails = []
    gs = {frozenset(x) for x in find_siphons(H)}
    gt = {frozenset(x) for x in find_traps(H)}
    if gs != sip:
        fails.append(Fail("siphons", f"{sorted(map(sorted, gs))}", f"{sorted(map(sorted, sip))}"))
    if gt != trp:
        fails.append(Fail("traps", f"{sorted(map(sorted, gt))}", f"{sorted(map(sorted, trp))}"))
    sizes = sorted({len(x) for x in sip})
    return Outcome(nontrivial=len(sizes) > 1, outcome=f"sizes{sizes}", fails=fails, transitions=2)


def verify_cert(pre, post, fl, used, cert, ids):
    if cert is None:
        return "no certificate"
    m = {p: 0 for p in used}
    cnt = [0] * len(fl)
    for t in cert:
        if t not in ids:
            return f"unknown transition {t}"
        j = ids.index(t)
        cnt[j] += 1
        for p, w in pre[j].items():
            m[p] -= w
            if m[p] < 0:
                return f"species {p} negative at {t}"
        for p, w in post[j].items():
            m[p] += w
    if tuple(cnt) != tuple(fl):
        return f"fires {cnt}, flow {fl}"
    if any(m.values()):
        return f"final marking {m}"
    return ""


def _setup_quick():
    global FLOWMAX
    FLOWMAX = 2


def _setup_thorough():
    global FLOWMAX
    FLOWMAX = 3


def judge(H, net):
    """analysis must not change the network it analyses"""
    from mc.checks.c15 import snap

    before = snap(H)
    out = _judge(H, net)
    if snap(H) != before:
        out.fails.append(Fail("analysis_mutates_network", "the network object changed while it was analysed", "unchanged"))
    return out


def subchecks(tier, seed):
    from mc import edit_layer as el

    st = _setup_quick if tier == "quick" else _setup_thorough
    return [
        Sub("networks", gen, check, key=lambda c: c, rule=RULE[tier], setup=st),
        Sub("coupled_cycles", coupled_cycles, check_structural, key=lambda c: c, rule="three 2-cycles over 6 species, every choice of one optional extra reactant per reaction (15 625; quick: at most 3 extras, 4 841): minimal siphons and traps vs. the definitions on all 63 subsets"),
        Sub("edited", lambda t, s: el.gen_edits(t), check_edit, key=lambda c: f"{c['net']} / {c['edit']}", setup=st, rule="analyse, edit in place (replace a reaction under the same id / remove a species), analyse again; all such edits of every 2-reaction unit-coefficient network up to permutation (quick: 1 in 4 of the replacements)"),
    ]


def run(tier, seed):
    acc = run_subs(subchecks(tier, seed), tier, seed)
    return acc, True, {"flow_max": 2 if tier == "quick" else 3}
