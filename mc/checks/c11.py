"""C11 — automorphism groups and orbits exact; de-duplication returns a sub-list; pruning loses no result (E1)."""
from __future__ import annotations

import itertools
from math import prod

from mc import enum_graphs as eg
from mc import ref_match as rm
from mc.core import Fail, Outcome, Sub, run_subs

PROPERTY = "C11"
ASSUMPTIONS = [
    "alphabet: elements {C,O} (x hcount {0,1} for the estimate), charge 0, bond orders {1,2}",
    "sparse annotation (attributes with the documented default value - charge 0, order 1.0 - omitted on some atoms / bonds) is required not to change the exact analysis; the estimate declares no defaults and is judged on fully annotated graphs only",
    "exact analysis of a disconnected graph = per-component automorphisms, count = product, component swaps excluded (as documented)",
    "the estimate must be a coarsening of the per-component exact orbits (and hence is also allowed to merge across components)",
    "clause (c) (symmetry pruning during rule application) is decided by the rule-application layer of this check on synthetic rule x host families and on the corpus pairs of C03",
]
RULE = {
    "quick": "connected class representatives n<=4 over 2 elements x 2 bond orders under all permutations (n<=3) / rotations+reflection (n=4); all unordered pairs of connected representatives "
    "with <=5 atoms in total as disconnected graphs (incl. two isomorphic components); symmetric families; the exact analysis repeated with default-valued charge / order left out on some atoms / bonds, and with labels of equal value and other Python type (exact analysis and estimate); match lists of every (host n<=4 rep, pattern n<=3 rep) pair with >=2 matches through "
    "deduplicate_matches_with_anchor with exact, estimated and host orbits; non-trivial = non-trivial automorphism group",
    "thorough": "connected representatives n=5 (single bonds), pairs with <=6 atoms, larger symmetric families",
}

VATTR = [{"element": "C", "charge": 0, "aromatic": False, "hcount": 0}, {"element": "O", "charge": 0, "aromatic": False, "hcount": 0},
         {"element": "C", "charge": 0, "aromatic": False, "hcount": 1}]
EATTR = [{"order": 1.0}, {"order": 2.0}]


def conn_reps(nmax, nl=2, ne=2):
    out = []
    for n in range(1, nmax + 1):
        out += list(eg.representatives(n, nl, ne, connected_only=True))
    return out


def gen_graphs(tier, seed):
    from mc.checks.c08 import sym_families

    reps = conn_reps(4)
    if tier != "quick":
        reps += list(eg.representatives(5, 2, 1, connected_only=True))
    for c in reps:
        yield {"parts": [eg.code_str(c)]}
    for name, c in sym_families(tier).items():
        yield {"parts": [eg.code_str(c)]}
    small = conn_reps(4)
    tot = 5 if tier == "quick" else 6
    for i, a in enumerate(small):
        for b in small[i:]:
            if len(a[0]) + len(b[0]) <= tot:
                yield {"parts": [eg.code_str(a), eg.code_str(b)]}
    # three components, two of them isomorphic
    for a in conn_reps(2):
        for b in conn_reps(2):
            yield {"parts": [eg.code_str(a), eg.code_str(a), eg.code_str(b)]}


def assemble(parts, perm_seed=0):
    import networkx as nx

    G = nx.Graph()
    off = 0
    for s in parts:
        code = eg.parse_code(s)
        g = eg.to_nx(code, VATTR, EATTR, node_ids=list(range(off + 1, off + len(code[0]) + 1)))
        G.add_nodes_from(g.nodes(data=True))
        G.add_edges_from(g.edges(data=True))
        off += len(code[0])
    return G


def relabelings(G):
    import networkx as nx

    nodes = list(G.nodes)
    n = len(nodes)
    if n <= 3:
        perms = list(itertools.permutations(range(n)))
    else:
        perms = [tuple((i + k) % n for i in range(n)) for k in range(n)] + [tuple(reversed(range(n)))]
    for p in perms:
        m = {nodes[i]: nodes[p[i]] + 20 for i in range(n)}
        H = nx.Graph()
        # insertion order follows the new ids
        for old in sorted(nodes, key=lambda v: m[v]):
            H.add_node(m[old], **G.nodes[old])
        for u, v, d in G.edges(data=True):
            H.add_edge(m[u], m[v], **d)
        yield H


def sparse_variants(G):
    """the same graph with default-valued attributes omitted: 'charge' (0) on every other atom, on all atoms; 'order' (1.0) on every other single bond"""
    nodes = sorted(G.nodes)
    for name, drop_nodes, drop_edges in (("charge_alternating", nodes[::2], False), ("charge_all", nodes, False), ("order_alternating", [], True), ("both", nodes[1::2], True)):
        H = G.copy()
        for v in drop_nodes:
            if H.nodes[v].get("charge") == 0:
                del H.nodes[v]["charge"]
        if drop_edges:
            k = 0
            for u, v in sorted(H.edges):
                if H[u][v].get("order") == 1.0:
                    if k % 2 == 0:
                        del H[u][v]["order"]
                    k += 1
        yield name, H


def nk(a, b):
    return a["element"] == b["element"] and a["charge"] == b["charge"]


def nk_full(a, b):
    return nk(a, b) and a["aromatic"] == b["aromatic"] and a["hcount"] == b["hcount"]


def ek(a, b):
    return a["order"] == b["order"]


def exact(G, nodekey):
    comps = rm.components(G)
    counts, orbs = [], []
    for c in comps:
        sub = G.subgraph(c)
        autos = rm.automorphisms(sub, nodekey, ek)
        counts.append(len(autos))
        orbs += rm.orbits(sub, autos)
    return prod(counts), {frozenset(o) for o in orbs}


def check_graph(case):
    from synkit.Graph.Matcher.automorphism import Automorphism
    from synkit.Graph.Matcher.auto_est import AutoEst, estimate_automorphism_groups

    G0 = assemble(case["parts"])
    fails = []
    ncalls = 0
    nontriv = False
    for pi, G in enumerate(relabelings(G0)):
        n_want, orb_want = exact(G, nk)
        nontriv = nontriv or n_want > 1
        a = Automorphism(G)
        ncalls += 1
        if a.n_automorphisms != n_want:
            fails.append(Fail("n_automorphisms", f"{a.n_automorphisms}", str(n_want), key_extra="count"))
            break
        got = {frozenset(o) for o in a.orbits}
        if got != orb_want or sum(len(o) for o in a.orbits) != G.number_of_nodes():
            fails.append(Fail("orbits", f"{sorted(map(sorted, a.orbits))}", f"{sorted(map(sorted, orb_want))}", key_extra="orbits"))
            break
        for cfgname, kw, nodekey in (("default", {}, nk), ("reactor", dict(node_attrs=["element", "charge", "aromatic", "hcount"], edge_attrs=["order"]), nk_full)):
            est = AutoEst(G, **kw).fit()
            ncalls += 1
            _, orb_cfg = exact(G, nodekey)
            eo = [frozenset(o) for o in est.orbits]
            idx = {v: i for i, o in enumerate(eo) for v in o}
            if sorted(idx) != sorted(G.nodes) or sum(len(o) for o in eo) != G.number_of_nodes():
                fails.append(Fail("estimate_not_partition", f"{cfgname}: {sorted(map(sorted, eo))}", "a partition of the nodes", key_extra=cfgname))
                break
            split = [o for o in orb_cfg if len({idx[v] for v in o}) > 1]
            if split:
                fails.append(Fail("estimate_splits_orbit", f"{cfgname}: {sorted(map(sorted, eo))}", f"coarsening of {sorted(map(sorted, orb_cfg))}", key_extra=cfgname))
                break
        if pi <= 1:
            # sparse annotation: attributes that have the documented default value (charge 0, order 1.0) left out on some atoms / bonds
            for sname, H in sparse_variants(G):
                b = Automorphism(H)
                ncalls += 1
                if b.n_automorphisms != n_want or {frozenset(o) for o in b.orbits} != orb_want:
                    fails.append(Fail("sparse_annotation", f"{sname}: {b.n_automorphisms} automorphisms, orbits {sorted(map(sorted, b.orbits))}", f"{n_want}, {sorted(map(sorted, orb_want))} (as with every default written out)", key_extra=sname))
                    break
        if pi <= 1:
            # the same labels written with other Python types of equal value (1 / 1.0, 0 / 0.0, False / 0) on alternating atoms and bonds
            T = G.copy()
            for k, v in enumerate(sorted(T.nodes)):
                if k % 2:
                    T.nodes[v]["charge"] = float(T.nodes[v]["charge"])
                    T.nodes[v]["aromatic"] = int(T.nodes[v]["aromatic"])
                    T.nodes[v]["hcount"] = float(T.nodes[v]["hcount"])
            for k, (u, v) in enumerate(sorted(T.edges)):
                if k % 2 == 0:
                    T[u][v]["order"] = int(T[u][v]["order"])
            bt = Automorphism(T)
            ncalls += 1
            if bt.n_automorphisms != n_want or {frozenset(o) for o in bt.orbits} != orb_want:
                fails.append(Fail("value_equal_labels", f"exact: {bt.n_automorphisms} automorphisms", f"{n_want} (labels of equal value and other type)", key_extra="exact"))
            for cfgname, kw, nodekey in (("default", {}, nk), ("reactor", dict(node_attrs=["element", "charge", "aromatic", "hcount"], edge_attrs=["order"]), nk_full)):
                eo = [frozenset(o) for o in AutoEst(T, **kw).fit().orbits]
                ncalls += 1
                idx = {v: i for i, o in enumerate(eo) for v in o}
                _, orb_cfg = exact(G, nodekey)
                if sorted(idx) != sorted(G.nodes) or [o for o in orb_cfg if len({idx[v] for v in o}) > 1]:
                    fails.append(Fail("value_equal_labels", f"estimate {cfgname}: {sorted(map(sorted, eo))}", f"coarsening of {sorted(map(sorted, orb_cfg))}", key_extra=cfgname))
        if pi == 0:
            e2 = estimate_automorphism_groups(G)
            if {frozenset(o) for o in e2.orbits} != {frozenset(o) for o in AutoEst(G).fit().orbits}:
                fails.append(Fail("estimate_wrapper", "estimate_automorphism_groups differs from AutoEst.fit", "same"))
    return Outcome(nontrivial=nontriv, outcome=f"comps{len(case['parts'])}" + ("sym" if nontriv else "asym"), fails=fails, transitions=ncalls)


# ------------------------------------------------------------------ (a') other label selections
def gen_selections(tier, seed):
    for c in conn_reps(3, nl=3, ne=2):
        yield {"code": eg.code_str(c)}
    for c in eg.representatives(4, 3, 1, connected_only=True):
        yield {"code": eg.code_str(c)}


def check_selection(case):
    """the exact analysis under label selections other than the default: element only; element, charge, hcount (a third key);
    two bond keys (order and a mark carried by one bond) - always the automorphisms that preserve exactly the selected labels"""
    from synkit.Graph.Matcher.automorphism import Automorphism

    code = eg.parse_code(case["code"])
    G = eg.to_nx(code, VATTR, EATTR)
    es = sorted(G.edges)
    for k, (u, v) in enumerate(es):
        G[u][v]["mark"] = 1 if k == 0 else 0
    fails = []
    n = 0
    nontriv = False
    sels = [
        ("element", ["element"], ["order"], lambda a, b: a["element"] == b["element"], ek),
        ("element+charge+hcount", ["element", "charge", "hcount"], ["order"], lambda a, b: nk(a, b) and a["hcount"] == b["hcount"], ek),
        ("hcount_first", ["hcount", "element", "charge"], ["order"], lambda a, b: nk(a, b) and a["hcount"] == b["hcount"], ek),
        ("order+mark", ["element", "charge"], ["order", "mark"], nk, lambda a, b: a["order"] == b["order"] and a["mark"] == b["mark"]),
        ("mark_only", ["element", "charge"], ["mark"], nk, lambda a, b: a["mark"] == b["mark"]),
    ]
    for name, nkeys, ekeys, nm, em in sels:
        autos = rm.automorphisms(G, nm, em)
        want_n = len(autos)
        want_o = {frozenset(o) for o in rm.orbits(G, autos)}
        nontriv = nontriv or want_n > 1
        a = Automorphism(G, node_attr_keys=nkeys, edge_attr_keys=ekeys)
        n += 1
        got_o = {frozenset(o) for o in a.orbits}
        if a.n_automorphisms != want_n or got_o != want_o:
            fails.append(Fail("label_selection", f"{name}: {a.n_automorphisms} automorphisms, orbits {sorted(map(sorted, got_o))}", f"{want_n}, {sorted(map(sorted, want_o))}", key_extra=name))
    return Outcome(nontrivial=nontriv, outcome="sel", fails=fails, transitions=n)


# ------------------------------------------------------------------ (b) de-duplication
def gen_matches(tier, seed):
    hosts = [c for c in eg.representatives(4, 2, 2)] + [c for c in eg.representatives(3, 2, 2)]
    pats = [c for n in (1, 2, 3) for c in eg.representatives(n, 2, 2)]
    for h in hosts:
        for p in pats:
            yield [eg.code_str(h), eg.code_str(p)]


def is_subsequence(sub, full):
    it = iter(full)
    return all(any(x == y for y in it) for x in sub)


def check_matches(case):
    from synkit.Graph.Matcher.automorphism import Automorphism
    from synkit.Graph.Matcher.auto_est import AutoEst
    from synkit.Graph.Matcher.dedup_matches import deduplicate_matches_with_anchor
    from synkit.Graph.Matcher.subgraph_matcher import SubgraphSearchEngine as SE

    hs, ps = case
    hc, pc = eg.parse_code(hs), eg.parse_code(ps)
    host = eg.to_nx(hc, VATTR, EATTR, node_ids=list(range(11, 11 + len(hc[0]))))
    pat = eg.to_nx(pc, VATTR, EATTR)
    matches = SE.find_subgraph_mappings(host, pat, node_attrs=["element", "charge"], edge_attrs=["order"], strategy="all")
    if len(matches) < 2:
        return Outcome(skipped="fewer_than_2_matches")
    fails = []
    n = 0
    pa = Automorphism(pat)
    pe = AutoEst(pat, node_attrs=["element", "charge", "aromatic", "hcount"], edge_attrs=["order"]).fit()
    ha = Automorphism(host)
    he = AutoEst(host).fit()
    configs = {
        "exact_pattern": dict(pattern_orbits=pa.orbits, pattern_anchor=pa.anchor_component),
        "est_pattern": dict(pattern_orbits=pe.orbits, pattern_anchor=pe.anchor_component),
        "host_only": dict(host_orbits=ha.orbits),
        "host_est": dict(host_orbits=he.orbits),
        "both": dict(pattern_orbits=pa.orbits, pattern_anchor=pa.anchor_component, host_orbits=ha.orbits, host_anchor=ha.anchor_component),
        "none": {},
    }
    sizes = []
    for name, kw in configs.items():
        snapshot = [dict(m) for m in matches]
        out = deduplicate_matches_with_anchor([dict(m) for m in matches], **kw)
        n += 1
        if not is_subsequence(out, snapshot):
            fails.append(Fail("not_a_sublist", f"{name}: {out}", f"sub-sequence of {snapshot}", key_extra=name))
        elif not out:
            fails.append(Fail("emptied", f"{name}: []", "at least one match kept", key_extra=name))
        elif name == "none" and out != snapshot:
            fails.append(Fail("no_orbits_changes_list", f"{out}", f"{snapshot}", key_extra=name))
        sizes.append(len(out))
    return Outcome(nontrivial=min(sizes) < len(matches), outcome=f"{min(len(matches), 9)}->{min(sizes)}", fails=fails, transitions=n)


def subchecks(tier, seed):
    subs = [
        Sub("graphs", gen_graphs, check_graph, key=lambda c: "+".join(c["parts"]), rule=RULE[tier]),
        Sub("label_selections", gen_selections, check_selection, key=lambda c: c["code"], rule="connected representatives n<=3 (3 node labels incl. a hydrogen-count variant, 2 bond orders) and n=4 (single bonds), one bond carrying a mark: "
            "exact analysis under 5 label selections (element only; three node keys in two orders; two bond keys; mark only)"),
        Sub("match_lists", gen_matches, check_matches, key=lambda c: f"{c[0]}<-{c[1]}", rule=RULE[tier]),
    ]
    try:
        from mc.checks import rule_layer

        subs += rule_layer.c11_subs(tier, seed)
    except ImportError:
        pass
    return subs


def run(tier, seed):
    acc = run_subs(subchecks(tier, seed), tier, seed)
    return acc, True, {}
