"""C18 — network canonical form complete; automorphism data exact (E1 + E3 id seam)."""
from __future__ import annotations

import itertools
import sys
import zlib
from collections import defaultdict

from mc import enum_crn as ec
from mc import ref_match as rm
from mc.core import Acc, Fail, Outcome, Sub, run_subs, digest
from mc.seams import Chooser, IdSeam, explore

PROPERTY = "C18"
ASSUMPTIONS = [
    "canonical graphs are compared on structure plus the attributes the canonicaliser was told to use (node_attr_keys, edge_attr_keys); species names and reaction ids are payload",
    "CRNAutomorphism documents node-attribute matching only, so its oracle uses no edge attributes; CRNCanonicalizer's oracle uses its node and edge keys",
    "canonical node numbers need not be 1..N (the class's own test says so); only equality across presentations and isomorphism to the view are required",
    "identity seam: the id of an unowned temporary may be handed out again after it died (CPython permits it); live objects are never aliased",
    "timeouts disabled (timeout_sec=None)",
]
RULE = {
    "quick": "every network with <=3 unit-coefficient reactions over {A,B,C} up to species permutation (8 244) and every network with <=2 reactions, coefficients {0,1,2} "
    "up to permutation whose hash selects it (1 in 16); each under all 6 species renamings x all reaction orders x 2 id schemes, 3 configurations (species view; bipartite "
    "view with and without stoichiometry); all canonical digests grouped over the whole family and every group verified pairwise isomorphic by ref_match; E3: id-reuse seam "
    "with <=2 deviations on every network of the first family; non-trivial = view has a non-trivial automorphism",
    "thorough": "both families in full (46 184 networks), rings of identical reactions, E3 with frame-unscoped aliasing bound 1 in addition",
}

CONFIGS = [
    ("species", dict(include_rule=False)),
    ("bip", dict(include_rule=True, include_stoich=True)),
    ("bip_nostoich", dict(include_rule=True, include_stoich=False, edge_attr_keys=("role",))),
]
IDS = [None, ["z9", "a1", "m5", "b2", "c7", "y3", "d0"]]
NAMESETS = [list(p) for p in itertools.permutations(["A", "B", "C"])]


def gen(tier, seed):
    for net in ec.networks(3, 3, 1, quotient=True):
        yield {"net": ec.net_str(net), "e3": True}
    for net in ec.networks(3, 2, 2, quotient=True):
        s = ec.net_str(net)
        if any(c > 1 for l, r in net for c in l + r) and (tier != "quick" or zlib.crc32(s.encode()) % 16 == 0):
            yield {"net": s, "e3": False}
    for s in ["A>>B; B>>C; C>>A", "A>>B; B>>A; B>>C; C>>B; C>>A; A>>C", "A+B>>C; B+C>>A; C+A>>B", "2A>>B; 2B>>C; 2C>>A"]:
        yield {"net": s, "e3": True}
    # large automorphism groups (120, 720, 36, 576 structure-preserving self-maps)
    for s in ["A+B+C+D+E>>F", "A+B+C+D+E+F>>G", "A+B+C>>D; D>>E+F+G", "A+B+C+D>>E; E>>A+B+C+D"] + (["A+B+C+D>>G; G>>A+B+E+F"] if tier != "quick" else []):
        yield {"net": s, "e3": False, "big": True}


def sel_graph(G, nkeys, ekeys):
    nodes = {v: tuple(_fr(G.nodes[v].get(k)) for k in nkeys) for v in G.nodes}
    arcs = {(u, v): tuple(_fr(d.get(k)) for k in ekeys) for u, v, d in G.edges(data=True)}
    return nodes, arcs


def _fr(x):
    if isinstance(x, (set, frozenset)):
        return tuple(sorted(map(str, x)))
    if isinstance(x, dict):
        return tuple(sorted((str(k), str(v)) for k, v in x.items()))
    if isinstance(x, list):
        return tuple(x)
    return x


def canon_digest(Gc, nkeys, ekeys):
    nodes, arcs = sel_graph(Gc, nkeys, ekeys)
    return digest([sorted((repr(k), repr(v)) for k, v in nodes.items()), sorted((repr(k), repr(v)) for k, v in arcs.items())])


def presentations(net, full=True):
    """(names, order, ids) triples"""
    n = len(net)
    if max(len(l) for l, r in net) > 5:
        # many species: a handful of renamings (rotation, reversal, swap) instead of all 3! of the first three names
        base = ec.SPECIES[: max(len(l) for l, r in net)]
        k = len(base)
        for names in (base, base[1:] + base[:1], base[::-1], [base[1], base[0]] + base[2:]):
            for ids in IDS:
                yield list(names), tuple(range(n)), (ids[:n] if ids else None)
        return
    if n <= 3:
        orders = list(itertools.permutations(range(n)))
    else:  # rotations and the reversal
        orders = [tuple((i + k) % n for i in range(n)) for k in range(n)] + [tuple(reversed(range(n)))]
    for names in NAMESETS:
        for order in orders:
            for ids in IDS:
                yield names + ["D", "E", "F", "G"], order, (ids[:n] if ids else None)


def make(net, names, order, ids):
    return ec.build_hypergraph(net, names=names, ids=ids, order=order)


def own_view(net, names, order, ids, cname):
    """The expected graph view, built from the network tuple (not via the library's exporters)."""
    import networkx as nx

    n = len(net)
    rid = {}
    cnt = 0
    for k in order:
        cnt += 1
        rid[k] = ids[k] if ids else f"r_{cnt}"
    G = nx.DiGraph()
    used = sorted({names[i] for l, r in net for i in range(len(l)) if l[i] or r[i]})
    for sp in used:
        G.add_node(sp, kind="species")
    if cname == "species":
        for l, r in net:
            for i, a in enumerate(l):
                for j, b in enumerate(r):
                    if a and b:
                        G.add_edge(names[i], names[j])
        return G
    for k in range(n):
        l, r = net[k]
        G.add_node(rid[k], kind="reaction")
        for i, a in enumerate(l):
            if a:
                G.add_edge(names[i], rid[k], role="reactant", **({"stoich": a} if cname == "bip" else {}))
        for j, b in enumerate(r):
            if b:
                G.add_edge(rid[k], names[j], role="product", **({"stoich": b} if cname == "bip" else {}))
    return G


def same_view(G, W, ekeys):
    if set(G.nodes) != set(W.nodes) or set(G.edges) != set(W.edges):
        return False
    if any(G.nodes[v].get("kind") != W.nodes[v].get("kind") for v in W.nodes):
        return False
    return all(tuple(G[u][v].get(k) for k in ekeys) == tuple(W[u][v].get(k) for k in ekeys) for u, v in W.edges)


def check(case):
    from synkit.CRN.Topo.canon import CRNCanonicalizer
    from synkit.CRN.Topo.automorphism import CRNAutomorphism

    net = ec.parse_net(case["net"])
    fails = []
    ncalls = 0
    nontriv = False
    first = {}
    dead = set()
    for pi, (names, order, ids) in enumerate(presentations(net)):
        H = make(net, names, order, ids)  # ONE object shared by all helpers and configurations of this presentation
        cfgs = CONFIGS if pi % 2 == 0 else CONFIGS[::-1]
        for cname, kw in cfgs:
            if cname in dead:
                continue
            can = CRNCanonicalizer(H, **kw)
            summ = can.summary(timeout_sec=None)
            ncalls += 1
            Gc = summ["canon_graph"]
            nk, ek = can.node_attr_keys, can.edge_attr_keys
            d = canon_digest(Gc, nk, ek)
            view = can.G
            if pi < 2:
                # probe cheaply, then ask without limits - on one object: the unlimited answer is the fresh object's
                can2 = CRNCanonicalizer(H, **kw)
                for md in (1, 2):
                    try:
                        can2.summary(max_depth=md, timeout_sec=None)
                    except Exception:
                        pass
                s2 = can2.summary(timeout_sec=None)
                ncalls += 3
                orb = lambda x: {frozenset(map(str, o)) for o in x}
                if canon_digest(s2["canon_graph"], nk, ek) != d or s2["automorphism_count"] != summ["automorphism_count"] or orb(s2["orbits"]) != orb(summ["orbits"]) or bool(s2["early_stop"]) != bool(summ["early_stop"]):
                    fails.append(Fail("limited_then_unlimited", f"{cname}: after calls with max_depth 1 and 2 the unlimited call reports {s2['automorphism_count']} automorphisms, early_stop={s2['early_stop']}",
                                      f"{summ['automorphism_count']} automorphisms, early_stop={summ['early_stop']} and the same canonical graph and orbits as a fresh object", key_extra=cname))
                    dead.add(cname)
                    continue
            if pi < 2:
                W = own_view(net, names, order, ids, cname)
                if not same_view(view, W, ek):
                    fails.append(Fail("wrong_view", f"{cname}: arcs {sorted((str(u), str(v), tuple(view[u][v].get(k) for k in ek)) for u, v in view.edges)}", f"{sorted((str(u), str(v), tuple(W[u][v].get(k) for k in ek)) for u, v in W.edges)}", key_extra=cname))
                    dead.add(cname)
                    continue
            if cname not in first:
                first[cname] = d
                if not rm.isomorphic(view, Gc, lambda a, b: _fr_d(a) == _fr_d(b), lambda a, b: _fr_d(a) == _fr_d(b)):
                    fails.append(Fail("canon_not_isomorphic_to_view", f"{cname}: nodes {sorted(map(str, Gc.nodes))}", "isomorphic", key_extra=cname))
                autos = rm.automorphisms(view, lambda a, b: _sel(a, nk) == _sel(b, nk), lambda a, b: _sel(a, ek) == _sel(b, ek))
                orb = {frozenset(o) for o in rm.orbits(view, autos)}
                if len(autos) > 1:
                    nontriv = True
                if summ["automorphism_count"] != len(autos):
                    fails.append(Fail("canon_aut_count", f"{cname}: {summ['automorphism_count']}", str(len(autos)), key_extra=cname))
                if {frozenset(o) for o in summ["orbits"]} != orb:
                    fails.append(Fail("canon_orbits", f"{cname}: {sorted(map(sorted, summ['orbits']))}", str(sorted(map(sorted, orb))), key_extra=cname))
                akw = {k: v for k, v in kw.items() if k != "edge_attr_keys"}
                au = CRNAutomorphism(H, **akw)
                s2 = au.summary(max_count=10**6, timeout_sec=None)
                ncalls += 1
                if not same_view(au.G, own_view(net, names, order, ids, cname), ()):
                    fails.append(Fail("wrong_view", f"{cname}: CRNAutomorphism view differs from the network's", "the view of this network", key_extra=cname + ",vf2"))
                autos2 = rm.automorphisms(au.G, lambda a, b: _sel(a, au.node_attr_keys) == _sel(b, au.node_attr_keys), lambda a, b: True)
                orb2 = {frozenset(o) for o in rm.orbits(au.G, autos2)}
                if s2["automorphism_count"] != len(autos2) or s2["stopped_early"]:
                    fails.append(Fail("vf2_aut_count", f"{cname}: {s2['automorphism_count']} stopped={s2['stopped_early']}", str(len(autos2)), key_extra=cname))
                if {frozenset(o) for o in s2["orbits"]} != orb2:
                    fails.append(Fail("vf2_orbits", f"{cname}: {sorted(map(sorted, s2['orbits']))}", str(sorted(map(sorted, orb2))), key_extra=cname))
                can0 = CRNCanonicalizer(H, **{**kw, "edge_attr_keys": ()})
                s0 = can0.summary(timeout_sec=None)
                if s0["automorphism_count"] != len(autos2):
                    fails.append(Fail("canon_vs_vf2", f"{cname}: {s0['automorphism_count']}", str(len(autos2)), key_extra=cname))
            elif d != first[cname]:
                fails.append(Fail("presentation_dependent", f"{cname}: names={names[:3]} order={order} ids={ids}", "same canonical graph as the first presentation", key_extra=cname))
                dead.add(cname)
    return Outcome(nontrivial=nontriv, outcome="sym" if nontriv else "asym", fails=fails, transitions=ncalls)


def check_edit(case):
    """canonicalise, edit the same network object in place, canonicalise again with fresh helpers"""
    from synkit.CRN.Topo.canon import CRNCanonicalizer
    from synkit.CRN.Topo.automorphism import CRNAutomorphism
    from mc import edit_layer as el

    net = ec.parse_net(case["net"])
    H = ec.build_hypergraph(net)
    for cname, kw in CONFIGS:
        CRNCanonicalizer(H, **kw).summary(timeout_sec=None)
        CRNAutomorphism(H, **{k: v for k, v in kw.items() if k != "edge_attr_keys"}).summary(max_count=10**6, timeout_sec=None)
    net2 = el.apply_edit(H, net, case["edit"])
    if not net2:
        return Outcome(skipped="network_became_empty")
    fresh = ec.build_hypergraph(net2)
    fails = []
    for cname, kw in CONFIGS:
        a = CRNCanonicalizer(H, **kw)
        b = CRNCanonicalizer(fresh, **kw)
        sa, sb = a.summary(timeout_sec=None), b.summary(timeout_sec=None)
        da = canon_digest(sa["canon_graph"], a.node_attr_keys, a.edge_attr_keys)
        db = canon_digest(sb["canon_graph"], b.node_attr_keys, b.edge_attr_keys)
        if da != db or sa["automorphism_count"] != sb["automorphism_count"]:
            fails.append(Fail("stale_after_edit", f"{cname}: canonical graph / automorphism count of the edited object differ from a freshly built equal network", "equal", key_extra=cname))
        akw = {k: v for k, v in kw.items() if k != "edge_attr_keys"}
        ca = CRNAutomorphism(H, **akw).summary(max_count=10**6, timeout_sec=None)["automorphism_count"]
        cb = CRNAutomorphism(fresh, **akw).summary(max_count=10**6, timeout_sec=None)["automorphism_count"]
        if ca != cb:
            fails.append(Fail("stale_after_edit_vf2", f"{cname}: {ca} vs fresh {cb}", "equal", key_extra=cname))
    return Outcome(nontrivial=True, outcome="edited", fails=fails, transitions=12)


def _sel(d, keys):
    return tuple(_fr(d.get(k)) for k in keys)


def _fr_d(d):
    return tuple(sorted((k, repr(_fr(v))) for k, v in d.items()))


# ---------------------------------------------------------------- discrimination (global grouping)
def group_worker(args):
    """canonical digests of one shard of the family (first presentation only)"""
    from mc.core import quiet
    from synkit.CRN.Topo.canon import CRNCanonicalizer

    quiet()
    tier, shard, nshards = args
    out = []
    for i, case in enumerate(gen(tier, 0)):
        if i % nshards != shard:
            continue
        net = ec.parse_net(case["net"])
        H = make(net, (NAMESETS[0] + ["D", "E", "F", "G"]), range(len(net)), None)
        for cname, kw in CONFIGS:
            can = CRNCanonicalizer(H, **kw)
            out.append((cname, canon_digest(can.graph(timeout_sec=None), can.node_attr_keys, can.edge_attr_keys), case["net"]))
    return out


def verify_group(args):
    from mc.core import quiet
    from synkit.CRN.Topo.canon import CRNCanonicalizer

    quiet()
    cname, dg, nets = args
    kw = dict(CONFIGS)[cname]
    views = []
    for s in nets:
        net = ec.parse_net(s)
        can = CRNCanonicalizer(make(net, NAMESETS[0] + ["D", "E", "F", "G"], range(len(net)), None), **kw)
        views.append((s, can.G, can.node_attr_keys, can.edge_attr_keys))
    s0, G0, nk, ek = views[0]
    bad = []
    for s, G, _, _ in views[1:]:
        if not rm.isomorphic(G0, G, lambda a, b: _sel(a, nk) == _sel(b, nk), lambda a, b: _sel(a, ek) == _sel(b, ek)):
            bad.append((s0, s))
    return cname, dg, len(nets), bad


def discrimination(tier):
    from mc.core import pmap, NPROC

    acc = Acc()
    res = pmap(group_worker, [(tier, sh, NPROC) for sh in range(NPROC)])
    groups = defaultdict(list)
    for part in res:
        for cname, dg, s in part:
            groups[(cname, dg)].append(s)
    tasks = [(c, d, sorted(v)) for (c, d), v in sorted(groups.items()) if len(v) > 1]
    out = pmap(verify_group, tasks, chunksize=8)
    sub = acc.sub("discrimination")
    for cname, dg, n, bad in out:
        sub["cases"] += n
        sub["transitions"] += n - 1
        acc.transitions += n - 1
        for a, b in bad[:3]:
            sub["violations"] += 1
            acc.violations.append({"sub": "discrimination/non_isomorphic_same_canon", "key": f"{cname}|{a}|{b}", "observed": f"same canonical graph {dg}", "expected": "different canonical graphs (views not isomorphic by ref_match)",
                                   "case": {"config": cname, "a": a, "b": b}, "subcheck": "discrimination"})
    # completeness across the family for the lossless configuration: distinct permutation classes => distinct digests
    n_classes = sum(len(v) for (c, d), v in groups.items() if c == "bip")
    n_digests = sum(1 for (c, d) in groups if c == "bip")
    acc.extra["bip_classes"] = n_classes
    acc.extra["bip_distinct_canonical_graphs"] = n_digests
    acc.extra["digest_groups_verified"] = len(tasks)
    return acc


# ---------------------------------------------------------------- E3: id seam
def e3_check(case):
    from synkit.CRN.Topo import canon as canon_mod
    from synkit.CRN.Topo.canon import CRNCanonicalizer

    if not case.get("e3"):
        return Outcome(skipped="not_in_e3_family")
    net = ec.parse_net(case["net"])
    fails = []
    nexec = 0
    maxcalls = 0
    for cname, kw in CONFIGS[:2]:
        H = make(net, NAMESETS[0] + ["D", "E"], range(len(net)), None)

        def run(ch, scoped=True):
            seam = IdSeam(ch, scoped=scoped)
            canon_mod.id = seam
            try:
                can = CRNCanonicalizer(H, **kw)
                s = can.summary(timeout_sec=None)
                return (canon_digest(s["canon_graph"], can.node_attr_keys, can.edge_attr_keys), s["automorphism_count"], tuple(sorted(tuple(sorted(map(str, o))) for o in s["orbits"])), seam.calls)
            finally:
                try:
                    del canon_mod.id
                except AttributeError:
                    pass

        results, complete = explore(lambda ch: run(ch, True), BOUND, max_exec=4000)
        if UNSCOPED:
            r2, c2 = explore(lambda ch: run(ch, False), 1, max_exec=4000)
            results += r2
            complete = complete and c2
        base = results[0][1]
        nexec += len(results)
        maxcalls = max(maxcalls, base[3])
        for choices, res in results[1:]:
            if res[:3] != base[:3]:
                fails.append(Fail("id_reuse_changes_result", f"{cname}: id choices {choices} -> canon {res[0]} auts {res[1]}", f"canon {base[0]} auts {base[1]}", key_extra=cname))
                break
        if not complete:
            fails.append(Fail("e3_cap", "execution cap hit", "complete exploration", key_extra=cname))
    return Outcome(nontrivial=maxcalls > 0 and nexec > 2, outcome=f"idcalls{min(maxcalls, 9)}", fails=fails, transitions=nexec)


BOUND = 2
UNSCOPED = False


def _setup_q():
    global BOUND, UNSCOPED
    BOUND, UNSCOPED = 2, False


def _setup_t():
    global BOUND, UNSCOPED
    BOUND, UNSCOPED = 2, True


def subchecks(tier, seed):
    return [
        Sub("presentations", gen, check, key=lambda c: c["net"], rule=RULE[tier]),
        Sub("edited", lambda t, s: __import__("mc.edit_layer", fromlist=["x"]).gen_edits(t), check_edit, key=lambda c: f"{c['net']} / {c['edit']}", rule="canonicalise, edit in place, canonicalise again; compared with a freshly built equal network"),
        Sub("id_seam", gen, e3_check, key=lambda c: c["net"], rule=RULE[tier], setup=_setup_q if tier == "quick" else _setup_t),
    ]


def run(tier, seed):
    acc = run_subs(subchecks(tier, seed), tier, seed)
    acc.merge(discrimination(tier))
    return acc, True, {}
