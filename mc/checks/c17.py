"""C17 — stoichiometric analysis agrees with exact linear algebra (E1)."""
from __future__ import annotations

import itertools
import zlib
from collections import Counter

import numpy as np

from mc import enum_crn as ec
from mc import ref_linalg as rl
from mc.core import Fail, Outcome, Sub, run_subs

PROPERTY = "C17"
ASSUMPTIONS = [
    "networks: every multiset of <=2 reactions over 3 species with coefficients in {0,1,2} (quick: one per species-permutation class; thorough: all, plus 3 reactions with coefficients {0,1}) "
    " (catalysts, trivial reactions, sources and sinks included); 4 species/2 reactions/coefficients {0,1}; textbook families",
    "oracle: exact rational rank and kernels; positivity decided only with an exactly verified certificate (positive integer kernel "
    "vector, or Stiemke alternative); undecided cases are counted and reported",
    "floating results compared with tolerance 1e-8 relative",
    "SciPy present, so None (inconclusive) is not an acceptable answer",
]
RULE = {
    "quick": "every network with <=2 reactions over species {A,B,C}, coefficients {0,1,2}, one per species-permutation class (46 184 of 266 084), plus textbook families and 8 232 networks made of a reaction, its exact reverse and one or two more reactions; isolated-species and bipartite-view sub-checks on the unit-coefficient / textbook networks and 1 in 8 of the others; "
    "three id/rule schemes assigned by a hash of the network; non-trivial = kernel of S or S^T is non-zero",
    "thorough": "all 266 084 labelled networks of the quick family + every 3-reaction network over 3 species with coefficients {0,1} (43 680), 4 species x 2 reactions x {0,1}, textbook families",
}

SCHEMES = [
    (None, None),
    (["z", "y", "x", "w", "v", "u", "t"], ["a", "b", "c", "d", "e", "f", "g"]),
    (["r", "q", "r", "q", "r", "q", "r"], None),
]


def scheme_lists(case, n):
    """rule names and ids of the scheme chosen by a hash of the network, for n reactions (the base lists are continued for long networks)"""
    rules, ids = SCHEMES[zlib.crc32(case.encode()) % 3]
    if rules:
        rules = [rules[k % len(rules)] for k in range(n)]
    if ids:
        ids = [ids[k] if k < len(ids) else f"{ids[k % len(ids)]}{k}" for k in range(n)]
    return rules, ids

TEXTBOOK = [
    "A>>B; B>>A",
    "A>>B; B>>C; C>>A",
    "A>>B; B>>A; B>>C; C>>B",
    "A>>B; B>>C; C>>D; D>>A",
    "∅>>A; A>>B; B>>∅",
    "∅>>A; A>>∅",
    "B+C>>F+A",
    "A+B>>C; C>>A+B; C>>A+D",
    "A>>2A; A+B>>2B; B>>∅",
    "A+B>>C; C>>D+E; D>>A; E>>B",
    "A>>B; B>>C; C>>D; D>>E; E>>F; F>>A",
    "A>>B; B>>A; C>>D; D>>C; E>>F; F>>G",
    "2A>>B; B>>2A; A+C>>D; D>>A+C; D>>B+E",
    "A>>B; C>>D; E>>F",
    "A+B>>2C; 2C>>A+B; C>>D; D>>C; D+E>>F; F>>D+E",
    "A>>A",
    "A+B>>A+B; A>>B",
]


def reverse_pair_family(tier):
    """a reaction together with its exact reverse, plus one more reaction (any over 3 species, coefficients <= 2) or two more
    (unit coefficients): the pair's net flux is a free variable the rest may need"""
    S3 = [r for r in ec.reactions(3, 2)]
    U3 = [r for r in ec.reactions(3, 1)]
    bases = [((1, 0, 0), (0, 1, 0)), ((1, 1, 0), (0, 0, 1)), ((2, 0, 0), (0, 1, 0))]
    for l, r in bases:
        pair = ((l, r), (r, l))
        for x in S3:
            yield pair + (x,)
        for i, x in enumerate(U3):
            for y in U3[i:]:
                yield pair + (x, y)


def gen(tier, seed):
    for net in ec.networks(3, 2, 2, quotient=(tier == "quick")):
        yield ec.net_str(net)
    for s in TEXTBOOK:
        yield s
    for net in reverse_pair_family(tier):
        yield ec.net_str(net)
    if tier != "quick":
        for net in ec.networks(3, 3, 1, rmin=3):
            yield ec.net_str(net)
        for net in ec.networks(4, 2, 1):
            yield ec.net_str(net)


def exact_S(net, names):
    """rows: sorted species that occur; cols: reactions in given order"""
    used = sorted({names[i] for l, r in net for i in range(len(l)) if l[i] or r[i]})
    S = [[r[names.index(sp)] - l[names.index(sp)] for (l, r) in net] for sp in used]
    return used, S


def check(case):
    from synkit.CRN.Props import stoich
    from synkit.CRN.Petri import semiflows

    net = ec.parse_net(case)
    rules, ids = scheme_lists(case, len(net))
    H = ec.build_hypergraph(net, rules=rules, ids=ids)
    return judge(H, net, rules)


def check_edit(case):
    """analyse, edit the same object in place, analyse again"""
    from mc import edit_layer as el

    net = ec.parse_net(case["net"])
    H = ec.build_hypergraph(net)
    judge(H, net, None)
    net2 = el.apply_edit(H, net, case["edit"])
    if not net2:
        return Outcome(skipped="network_became_empty")
    out = judge(H, net2, None)
    for f in out.fails:
        f.tag = "after_edit_" + f.tag
    return out


def _judge(H, net, rules, used=None, view=None):
    """`used`: the registered species when some occur in no reaction (zero rows); `view`: (graph, scale, species node names) to hand
    the analysis a bipartite graph whose coefficients are `scale` times the network's instead of the network object"""
    from synkit.CRN.Props import stoich
    from synkit.CRN.Petri import semiflows

    names = ec.SPECIES
    used0, S0 = exact_S(net, names)
    if used is None:
        used, S = used0, S0
    else:
        S = [S0[used0.index(x)] if x in used0 else [0] * len(net) for x in used]
    ns, nr = len(used), len(net)
    fails = []
    rk = rl.rank(S)
    rule_of = rules or ["r"] * nr
    if view is not None:
        return _judge_view(net, used, S, rk, view)
    # --- matrix
    sp, rx, Sm = stoich.build_S(H)
    want_cols = Counter((rule_of[j], tuple(S[i][j] for i in range(ns))) for j in range(nr))
    got_cols = Counter((rx[j], tuple(int(round(x)) for x in Sm[:, j])) for j in range(Sm.shape[1])) if Sm.shape == (ns, nr) else None
    if list(sp) != used or Sm.shape != (ns, nr) or got_cols != want_cols or not np.allclose(Sm, np.round(Sm)):
        fails.append(Fail("matrix", f"species={sp} reactions={rx} S={Sm.tolist()}", f"species={used} columns={sorted(want_cols.elements())}"))
        return Outcome(fails=fails, outcome="matrix_bad")
    so, eo, M = H.incidence_matrix(sparse=False)
    inc_cols = Counter((H.edges[e].rule, tuple(int(x) for x in M[:, j])) for j, e in enumerate(eo))
    if so != used or inc_cols != want_cols:
        fails.append(Fail("matrix_vs_incidence", f"incidence species={so} cols={sorted(inc_cols.elements())}", f"{sorted(want_cols.elements())}"))
    so2, eo2, mp = H.incidence_matrix(sparse=True)
    sp_cols = Counter((H.edges[e].rule, tuple(int(mp.get((sname, e), 0)) for sname in so2)) for e in eo2)
    if so2 != used or sp_cols != want_cols:
        fails.append(Fail("matrix_vs_sparse_incidence", f"sparse incidence species={so2} cols={sorted(sp_cols.elements())}", f"{sorted(want_cols.elements())}"))
    Sx = [[int(round(x)) for x in row] for row in Sm.tolist()]  # implementation's column order, exact ints
    # --- rank
    r_impl = stoich.stoichiometric_rank(H)
    if r_impl != rk:
        fails.append(Fail("rank", str(r_impl), str(rk)))
    # --- kernels
    for name, fn, A, dim_want, n in (
        ("left_kernel", stoich.left_nullspace, Sm.T, ns - rk, ns),
        ("right_kernel", stoich.right_nullspace, Sm, nr - rk, nr),
        ("p_semiflows", semiflows.find_p_semiflows, Sm.T, ns - rk, ns),
        ("t_semiflows", semiflows.find_t_semiflows, Sm, nr - rk, nr),
    ):
        B = np.atleast_2d(fn(H))
        if B.size == 0:
            k = 0
        else:
            k = B.shape[1]
        ok = k == dim_want
        if ok and k:
            ok = B.shape[0] == n and np.abs(A @ B).max() <= 1e-8 * max(1.0, np.abs(B).max()) and np.linalg.matrix_rank(B, tol=1e-8) == k
        if not ok:
            fails.append(Fail(name, f"shape={B.shape} basis={np.round(B, 6).tolist()}", f"{dim_want} independent vectors annihilating S"))
    # --- conservativity / consistency
    cons_want, cert1 = rl.positive_kernel_decision(rl.transpose(Sx), ns)
    consi_want, cert2 = rl.positive_kernel_decision(Sx, nr)
    if cons_want is None or consi_want is None:
        return Outcome(skipped="oracle_undecided", fails=fails)
    # D11 (known finding): false "not conservative" when dim ker(S^T) >= 2 -- a class named by a predicate on the input
    kc = "class:conservative-with-left-kernel-dim>=2,reported-not-conservative" if (cons_want and ns - rk >= 2) else ""
    got = stoich.is_conservative(H)
    if got is not cons_want:
        fails.append(Fail("is_conservative", str(got), f"{cons_want} (certificate {cert1})", key_class=kc if got is False else ""))
    flag, m = stoich.compute_conservativity(H)
    if flag is not cons_want:
        fails.append(Fail("compute_conservativity", str(flag), f"{cons_want} (certificate {cert1})", key_class=kc if flag is False else ""))
    if flag and m is not None:
        m = np.asarray(m, dtype=float)
        if not (m.shape == (ns,) and np.all(m > 0) and np.abs(m @ Sm).max() <= 1e-8 * np.abs(m).max()):
            fails.append(Fail("conservation_witness", f"m={m.tolist()}", "strictly positive with m^T S = 0"))
    if flag and m is None and cons_want:
        fails.append(Fail("conservation_witness", "flag True but no witness", "a witness"))
    got = stoich.is_consistent(H)
    if got is not consi_want:
        fails.append(Fail("is_consistent", str(got), f"{consi_want} (certificate {cert2})"))
    sm = stoich.summary(H)
    if (sm.n_species, sm.n_reactions, sm.rank, sm.dim_left_kernel, sm.dim_right_kernel) != (ns, nr, rk, ns - rk, nr - rk):
        fails.append(Fail("summary_dims", f"{(sm.n_species, sm.n_reactions, sm.rank, sm.dim_left_kernel, sm.dim_right_kernel)}", f"{(ns, nr, rk, ns - rk, nr - rk)}"))
    if sm.is_conservative is not cons_want:
        fails.append(Fail("summary_conservative", f"{sm.is_conservative}", f"{cons_want}", key_class=kc if sm.is_conservative is False else ""))
    if sm.is_consistent is not consi_want:
        fails.append(Fail("summary_consistent", f"{sm.is_consistent}", f"{consi_want}"))
    return Outcome(
        nontrivial=(ns - rk > 0 or nr - rk > 0),
        outcome=f"rank{rk}/{ns}x{nr}/cons={cons_want}/consist={consi_want}",
        fails=fails,
        transitions=12,
    )


def _judge_view(net, used, S, rk, view):
    """the analysis handed a bipartite graph directly; its coefficients are `scale` x the integer ones, so rank, kernels and verdicts are those of S"""
    from synkit.CRN.Props import stoich
    from synkit.CRN.Petri import semiflows

    G, scale, vname = view
    ns, nr = len(used), len(net)
    fails = []
    sp, rx, Sm = stoich.build_S(G)
    rows = {str(x): i for i, x in enumerate(sp)}
    ok = Sm.shape == (ns, nr) and len(rows) == ns
    if ok:
        # rows may come in the graph's own order: compare as a set of labelled rows, columns as a multiset
        want_cols = Counter(tuple(scale * S[i][j] for i in range(ns)) for j in range(nr))
        try:
            order = [rows[x] for x in used]
            got_cols = Counter(tuple(float(Sm[order[i], j]) for i in range(ns)) for j in range(nr))
            ok = got_cols == Counter(tuple(float(x) for x in c) for c in want_cols.elements())
        except KeyError:
            ok = False
    if not ok:
        fails.append(Fail("view_matrix", f"{vname}: species={list(sp)} S={Sm.tolist()}", f"{scale} x the integer matrix on species {used}", key_extra=vname))
        return Outcome(nontrivial=True, outcome="view_matrix_bad", fails=fails, transitions=1)
    if stoich.stoichiometric_rank(G) != rk:
        fails.append(Fail("view_rank", f"{vname}: {stoich.stoichiometric_rank(G)}", str(rk), key_extra=vname))
    for name, fn, A, dim_want, n in (("left_kernel", stoich.left_nullspace, Sm.T, ns - rk, ns), ("right_kernel", stoich.right_nullspace, Sm, nr - rk, nr),
                                     ("p_semiflows", semiflows.find_p_semiflows, Sm.T, ns - rk, ns), ("t_semiflows", semiflows.find_t_semiflows, Sm, nr - rk, nr)):
        B = np.atleast_2d(fn(G))
        k = 0 if B.size == 0 else B.shape[1]
        ok = k == dim_want
        if ok and k:
            ok = B.shape[0] == n and np.abs(A @ B).max() <= 1e-8 * max(1.0, np.abs(B).max()) and np.linalg.matrix_rank(B, tol=1e-8) == k
        if not ok:
            fails.append(Fail("view_" + name, f"{vname}: shape={B.shape} basis={np.round(B, 6).tolist()}", f"{dim_want} independent vectors annihilating S", key_extra=vname))
    cons_want, cert1 = rl.positive_kernel_decision(rl.transpose(S), ns)
    consi_want, cert2 = rl.positive_kernel_decision(S, nr)
    if cons_want is None or consi_want is None:
        return Outcome(skipped="oracle_undecided", fails=fails)
    kc = "class:conservative-with-left-kernel-dim>=2,reported-not-conservative" if (cons_want and ns - rk >= 2) else ""
    got = stoich.is_conservative(G)
    if got is not cons_want:
        fails.append(Fail("is_conservative", str(got), f"{cons_want} (certificate {cert1}) [{vname}]", key_extra=vname, key_class=kc if got is False else ""))
    got = stoich.is_consistent(G)
    if got is not consi_want:
        fails.append(Fail("view_is_consistent", f"{vname}: {got}", f"{consi_want} (certificate {cert2})", key_extra=vname))
    return Outcome(nontrivial=(ns - rk > 0 or nr - rk > 0), outcome=f"view/rank{rk}/{ns}x{nr}", fails=fails, transitions=8)


def judge(H, net, rules, used=None):
    """analysis must not change the network it analyses"""
    from mc.checks.c15 import snap

    before = snap(H)
    out = _judge(H, net, rules, used=used)
    if snap(H) != before:
        out.fails.append(Fail("analysis_mutates_network", "the network object changed while it was analysed", "unchanged"))
    return out


def gen_small(tier, seed):
    """quick: the unit-coefficient networks, the textbook ones and 1 in 8 of the others (by a hash of the network);
    thorough: every network of the quick family (one per species-permutation class, textbook, reverse pairs)"""
    for s in gen("quick", seed):
        if tier != "quick" or "2" not in s or zlib.crc32(s.encode()) % 8 == 0:
            yield s


def net_of(H):
    """the reactions a network object holds, as coefficient vectors over ec.SPECIES, in id order"""
    out = []
    for eid in sorted(H.edges):
        e = H.edges[eid]
        out.append((tuple(int(e.reactants.get(x, 0)) for x in ec.SPECIES), tuple(int(e.products.get(x, 0)) for x in ec.SPECIES)))
    return tuple(out)


def check_isolated(case):
    """a species is taken out of every reaction while the species its reactions leave behind stay registered
    (remove_species(..., prune_orphans=False)): every registered species keeps its row"""
    net = ec.parse_net(case)
    used0, _ = exact_S(net, ec.SPECIES)
    fails = []
    n = 0
    nontriv = False
    for s in used0:
        H = ec.build_hypergraph(net)
        judge(H, net, None)
        H.remove_species(s, prune_orphans=False)
        if not H.edges:
            continue
        net2 = net_of(H)
        used2 = sorted(H.species)
        occurring = {ec.SPECIES[i] for l, r in net2 for i in range(len(l)) if l[i] or r[i]}
        nontriv = nontriv or bool(set(used2) - occurring)
        out = judge(H, net2, None, used=used2)
        n += out.transitions or 1
        for f in out.fails:
            f.tag = "isolated_" + f.tag
            f.key_extra = f"-{s}"
        fails += out.fails
        if fails:
            break
    return Outcome(nontrivial=nontriv, outcome="isolated" if nontriv else "no_isolated", fails=fails, transitions=n)


def check_views(case):
    """the analysis handed bipartite graphs directly: as exported, with nodes and arcs inserted in the opposite order, and with every coefficient halved"""
    from synkit.CRN.Hypergraph.conversion import hypergraph_to_bipartite

    net = ec.parse_net(case)
    H = ec.build_hypergraph(net)
    used, _ = exact_S(net, ec.SPECIES)
    fails = []
    n = 0
    nt = False
    sk = None
    for integer_ids in (False, True):
        bip = hypergraph_to_bipartite(H, integer_ids=integer_ids)
        rev = type(bip)()
        rev.graph.update(bip.graph)
        for v, d in reversed(list(bip.nodes(data=True))):
            rev.add_node(v, **dict(d))
        for u, v, d in reversed(list(bip.edges(data=True))):
            rev.add_edge(u, v, **dict(d))
        half = bip.copy()
        for u, v, d in half.edges(data=True):
            d["stoich"] = 0.5 * d.get("stoich", 1)
        for vname, G, scale in ((f"exported,int={integer_ids}", bip, 1), (f"reversed_insertion,int={integer_ids}", rev, 1), (f"halved,int={integer_ids}", half, 0.5)):
            out = _judge(H, net, None, view=(G, scale, vname))
            n += out.transitions or 1
            nt = nt or out.nontrivial
            sk = sk or out.skipped
            fails += out.fails
    return Outcome(nontrivial=nt, outcome="views", fails=fails, transitions=n, skipped=sk if not fails else None)


def subchecks(tier, seed):
    from mc import edit_layer as el

    return [
        Sub("networks", gen, check, key=lambda c: c, rule=RULE[tier]),
        Sub("isolated_species", gen_small, check_isolated, key=lambda c: c, rule="every unit-coefficient and textbook network and 1 in 8 of the others (thorough: the whole quick family), every species in turn taken out of all reactions with the left-behind species kept registered: one row per registered species, all clauses re-judged"),
        Sub("bipartite_views", gen_small, check_views, key=lambda c: c, rule="every unit-coefficient and textbook network and 1 in 8 of the others (thorough: the whole quick family) handed to the analysis as a bipartite graph (string and integer ids): as exported, inserted in the opposite order, every coefficient halved (matrix = 0.5 x S; rank, kernel dimensions, verdicts unchanged)"),
        Sub("edited", lambda t, s: el.gen_edits(t), check_edit, key=lambda c: f"{c['net']} / {c['edit']}", rule="analyse, edit in place (replace a reaction under the same id / remove a species), analyse again; all such edits of every 2-reaction unit-coefficient network up to permutation (quick: 1 in 4 of the replacements)"),
    ]


def run(tier, seed):
    acc = run_subs(subchecks(tier, seed), tier, seed)
    return acc, not acc.skipped, {}
