"""Rule-application layer shared by C03, C04, C05, C11(c), C14: corpus (template, substrate) pairs, the synthetic
two-component family, and the judgement functions."""
from __future__ import annotations

import itertools
from typing import Dict, List, Optional, Tuple

import networkx as nx
from rdkit import Chem

from mc import enum_rxn as er
from mc import ref_match as rm
from mc.core import Fail, Outcome, Sub
from mc.checks.c01 import centre_maps
from mc.checks.c09 import rd_its

TIER = ["quick"]
SEED = [0]
MAX_MATCHES = 64


# ----------------------------------------------------------------------------- corpus pairs
def mode_kwargs(rid: str) -> dict:
    """explicit-H corpus (graph.pkl): defaults; implicit-H corpus (ecoli): implicit_temp"""
    return {} if rid.startswith(("graph", "cur")) else dict(explicit_h=False, implicit_temp=True)


_USABLE = []


def usable_reactions() -> List[Tuple[str, str]]:
    """corpus reactions satisfying the precondition + the curated reactions (corpus style: the hydrogens that move are explicit)"""
    if _USABLE:
        return _USABLE
    from mc.curated import CURATED, minimal_explicit

    out = []
    for rid, s in er.corpus_reactions():
        if er.is_balanced(s) and er.fully_mapped_bijective(s) and h_consistent(s):
            out.append((rid, s))
    for name, s in CURATED.items():
        out.append((f"cur#{name}", minimal_explicit(s)))
    _USABLE.extend(out)
    return out


_IMPLICIT = []


def implicit_versions() -> List[Tuple[str, str]]:
    """the explicit-hydrogen reactions once more with every hydrogen implicit, to be run in implicit-H mode (other
    chemistry than the ecoli corpus); used by C03, whose statement quantifies over both hydrogen modes"""
    if not _IMPLICIT:
        for rid, s in usable_reactions():
            if rid.startswith(("graph", "cur")):
                t = all_implicit(s)
                if t and er.is_balanced(t) and er.fully_mapped_bijective(t) and h_consistent(t):
                    _IMPLICIT.append((f"gimp#{rid.replace('#', '_')}", t))
    return _IMPLICIT


def all_implicit(rsmi: str) -> Optional[str]:
    """every hydrogen atom folded into its heavy neighbour's count; None when a hydrogen has no single heavy neighbour"""
    ps = Chem.SmilesParserParams()
    ps.removeHs = False
    out = []
    for side in rsmi.split(">>"):
        m = Chem.MolFromSmiles(side, ps)
        if m is None:
            return None
        m = Chem.RWMol(m)
        rm_idx = []
        for a in m.GetAtoms():
            if a.GetSymbol() == "H":
                nb = list(a.GetNeighbors())
                if len(nb) != 1 or nb[0].GetSymbol() == "H" or a.GetFormalCharge() != 0:
                    return None
                nb[0].SetNumExplicitHs(nb[0].GetNumExplicitHs() + 1)
                nb[0].SetNoImplicit(True)
                rm_idx.append(a.GetIdx())
        for i in sorted(rm_idx, reverse=True):
            m.RemoveAtom(i)
        out.append(Chem.MolToSmiles(m, canonical=False))
    return ">>".join(out)


def curated_all_explicit() -> List[Tuple[str, str]]:
    """the curated reactions with *every* hydrogen of a centre atom explicit (also the ones that stay)"""
    from mc.curated import CURATED

    return [(f"curfull#{name}", s) for name, s in CURATED.items()]


def h_consistent(rsmi: str) -> bool:
    """either no explicit H atom occurs, or every hydrogen that changes its bonding is explicit and mapped
    (then no heavy atom changes its implicit hydrogen count)"""
    g = rd_its(rsmi)
    if g is None:
        return False
    hs = [v for v, d in g.nodes(data=True) if (d["lab"][0] or d["lab"][1])[0] == "H"]
    if not hs:
        return True
    for v, d in g.nodes(data=True):
        l0, l1 = d["lab"]
        if l0 and l1 and l0[0] != "H" and l0[2] != l1[2]:
            return False
    return True


def fold_h(g: nx.Graph) -> nx.Graph:
    """fold explicit hydrogens that have a heavy neighbour on every side they exist into per-side H totals"""
    h = nx.Graph()
    sym = lambda d: (d["lab"][0] or d["lab"][1])[0]
    Hn = [v for v, d in g.nodes(data=True) if sym(d) == "H"]
    foldable = set()
    for v in Hn:
        ok = True
        for side in (0, 1):
            if g.nodes[v]["lab"][side] is None:
                continue
            nb = [u for u in g[v] if g[v][u]["order"][side] > 0 and sym(g.nodes[u]) != "H"]
            if not nb:
                ok = False
        if ok:
            foldable.add(v)
    for v, d in g.nodes(data=True):
        if v in foldable:
            continue
        labs = [list(x) if x else None for x in d["lab"]]
        h.add_node(v, lab=labs)
    for u, v, d in g.edges(data=True):
        if u in foldable or v in foldable:
            hv, x = (u, v) if u in foldable else (v, u)
            if x in foldable:
                continue
            for side in (0, 1):
                if d["order"][side] > 0 and h.nodes[x]["lab"][side] is not None:
                    h.nodes[x]["lab"][side][2] += 1
        else:
            h.add_edge(u, v, order=list(d["order"]))
    return h


def change_graph_from_rd(g: nx.Graph, fold: bool = True, negate: bool = False, isolated: bool = False) -> nx.Graph:
    """graph of changed bonds: edge label = order change, node label = (element, hydrogen-count change, charge change);
    with `isolated` also the atoms that change charge without lying on a changed bond"""
    if fold:
        g = fold_h(g)
    c = nx.Graph()
    sgn = -1 if negate else 1
    for u, v, d in g.edges(data=True):
        if d["order"][0] != d["order"][1]:
            c.add_edge(u, v, d=sgn * (d["order"][1] - d["order"][0]))
    if isolated:
        for v, d in g.nodes(data=True):
            l0, l1 = d["lab"]
            if l0 and l1 and l0[3] != l1[3]:
                c.add_node(v)
    for v in c.nodes:
        l0, l1 = g.nodes[v]["lab"]
        el = (l0 or l1)[0]
        dh = (l1[2] if l1 else 0) - (l0[2] if l0 else 0)
        dq = (l1[3] if l1 else 0) - (l0[3] if l0 else 0) if (l0 and l1) else 0
        c.nodes[v]["lab"] = (el, sgn * dh, sgn * dq)
    return c


def its_to_rdlike(its: nx.Graph) -> nx.Graph:
    """SynKit ITS graph (typesGH, order pairs) -> the same structure rd_its produces"""
    g = nx.Graph()
    for v, d in its.nodes(data=True):
        t = d["typesGH"]
        g.add_node(v, lab=[(t[0][0], t[0][1], t[0][2], t[0][3]), (t[1][0], t[1][1], t[1][2], t[1][3])])
    for u, v, d in its.edges(data=True):
        o = d["order"]
        g.add_edge(u, v, order=[float(o[0]), float(o[1])])
    return g


def same_change(a: nx.Graph, b: nx.Graph) -> bool:
    return rm.isomorphic(a, b, lambda x, y: x["lab"] == y["lab"], lambda x, y: abs(x["d"] - y["d"]) < 1e-9)


def centre_carries_all_changes(rsmi: str) -> bool:
    """precondition for centre templates: every atom whose charge or hydrogen count changes is on a changed bond"""
    # judged on the reaction as written: a hydrogen that is written as an atom makes its bonds part of the centre
    g = rd_its(rsmi)
    c = change_graph_from_rd(g, fold=False)
    for v, d in g.nodes(data=True):
        l0, l1 = d["lab"]
        if l0 and l1 and (l0[2] != l1[2] or l0[3] != l1[3]) and v not in c:
            return False
    return True


def apply(substrate: str, template, rid: str, invert: bool, strategy: str, automorphism: bool = False):
    from synkit.Synthesis.Reactor.syn_reactor import SynReactor

    return SynReactor(substrate, template, invert=invert, strategy=strategy, automorphism=automorphism, **mode_kwargs(rid))


def templates_of(rsmi: str, radii=()):
    """reaction centre and full ITS; with `radii` also the centre plus every atom within r bonds (RadiusExpand)"""
    from synkit.IO.chem_converter import rsmi_to_its

    full = rsmi_to_its(rsmi, core=False)
    out = {"centre": rsmi_to_its(rsmi, core=True), "full": full}
    if radii:
        from synkit.Graph.Context.radius_expand import RadiusExpand

        for r in radii:
            k = RadiusExpand.extract_k(full, n_knn=r)
            if k.number_of_nodes() not in (out["centre"].number_of_nodes(), full.number_of_nodes()) and all(k.number_of_nodes() != v.number_of_nodes() for n, v in out.items() if n.startswith("r")):
                out[f"r{r}"] = k
    return out


def partial_context_templates(centre: nx.Graph, full: nx.Graph, limit: Optional[int]):
    """centre + first neighbours + ONE atom of the second shell, for every such atom (quick: `limit` of them, atoms that
    have a same-element sibling with another charge or hydrogen count in that shell first): context that names one of
    several look-alike atoms"""
    c = set(centre.nodes)
    r1 = set(c)
    for v in c:
        r1.update(full[v])
    r2 = set()
    for v in r1:
        r2.update(full[v])
    r2 -= r1
    if not r2 or len(r1) + 1 >= full.number_of_nodes():
        return {}

    def lab(v):
        t = full.nodes[v]["typesGH"][0]
        return t[0], (t[2], t[3])

    def has_sibling(v):
        return any(w != v and lab(w)[0] == lab(v)[0] and lab(w)[1] != lab(v)[1] for w in r2)

    order = sorted(r2, key=lambda v: (not has_sibling(v), v))
    if limit is not None:
        order = order[:limit]
    return {f"p{v}": full.subgraph(r1 | {v}).copy() for v in order}


def sides(rsmi: str):
    r, p = er.split(rsmi)
    return er.canon_side(r), er.canon_side(p)


def formula_balanced(rsmi: str) -> Optional[bool]:
    return er.is_balanced(rsmi)


# ----------------------------------------------------------------------------- C03 judgement of one application
def judge_outputs(sr, substrate_canon: str, invert: bool, tpl_change: Optional[nx.Graph], ctx: str, fails: List[Fail], key: str, rule_balanced: bool = True, tpl_change_h: Optional[nx.Graph] = None, isolated: bool = False):
    outs = sr.smarts_list
    again = sr.smarts_list  # a second read of the same reactor object
    if list(again) != list(outs):
        fails.append(Fail("second_read_differs", f"{ctx}: first read {list(outs)[:1]}, second read {list(again)[:1]}", "the same list on every read", key_extra=key))
        return
    n_bad = 0
    for o in outs:
        r, p = er.split(o)
        sub_side = er.canon_side(p if invert else r)
        if sub_side != substrate_canon:
            fails.append(Fail("substrate_not_preserved", f"{ctx}: {sub_side}", substrate_canon, key_extra=key))
            return
        if rule_balanced and formula_balanced(o) is not True:
            fails.append(Fail("not_balanced", f"{ctx}: {o[:200]}", "element counts with H and charge conserved", key_extra=key))
            return
    if tpl_change is not None:
        for its in sr.its_list:
            cg = change_graph_from_rd(its_to_rdlike(its), isolated=isolated)
            if tpl_change_h is not None:
                cgh = change_graph_from_rd(its_to_rdlike(its), fold=False)
                if not same_change(tpl_change_h, cgh):
                    fails.append(Fail("hydrogen_routes_differ_from_template", f"{ctx}: changed bonds incl. hydrogens {sorted((u, v, d['d']) for u, v, d in cgh.edges(data=True))} labels {dict(cgh.nodes(data='lab'))}",
                                      f"isomorphic to the template's {sorted((u, v, d['d']) for u, v, d in tpl_change_h.edges(data=True))} {dict(tpl_change_h.nodes(data='lab'))}", key_extra=key))
                    return
            if not same_change(tpl_change, cg):
                fails.append(Fail("change_differs_from_template", f"{ctx}: changed bonds {sorted((u, v, d['d']) for u, v, d in cg.edges(data=True))} labels {dict(cg.nodes(data='lab'))}",
                                  f"isomorphic to the template's {sorted((u, v, d['d']) for u, v, d in tpl_change.edges(data=True))} {dict(tpl_change.nodes(data='lab'))}", key_extra=key))
                return
    return outs


# ----------------------------------------------------------------------------- sub-check generators
def gen_rxn(tier, seed):
    for rid, s in usable_reactions():
        yield [rid, s]


def gen_rxn_both_modes(tier, seed):
    for rid, s in usable_reactions() + implicit_versions():
        yield [rid, s]


def result_set(outs) -> frozenset:
    return frozenset(x for x in (er.canon_rxn(o) for o in outs) if x)


def check_c03_c04(case):
    """own-template applications: C03 (a,b,c) on every output, C04 regeneration"""
    rid, s = case
    fails = []
    n = 0
    want = er.canon_rxn(s)
    rc, pc = sides(s)
    tpls = templates_of(s, radii=(1, 2))
    tpls["string"] = s  # the reaction string itself as template, used forwards and then backwards in this process
    tpls.update(partial_context_templates(tpls["centre"], tpls["full"], None if TIER[0] != "quick" else 4))
    g = rd_its(s)
    ch_f = change_graph_from_rd(g)
    ch_b = change_graph_from_rd(g, negate=True)
    chi = {False: change_graph_from_rd(g, isolated=True), True: change_graph_from_rd(g, negate=True, isolated=True)}
    explicit_mode = not mode_kwargs(rid)
    chh = {False: change_graph_from_rd(g, fold=False), True: change_graph_from_rd(g, fold=False, negate=True)} if explicit_mode else {False: None, True: None}
    centre_ok = centre_carries_all_changes(s)
    regen = 0
    skipped_big = 0
    for kind, tpl in tpls.items():
        for invert in (False, True):
            for strat in (("all", "comp", "bt") if TIER[0] != "quick" else (("all", "bt") if kind == "centre" else (("bt", "comp") if kind == "full" else ("bt",)))):
                key = f"{kind},{'bwd' if invert else 'fwd'},{strat}"
                if len(apply(pc if invert else rc, tpl, rid, invert, strat).mappings) > MAX_MATCHES:
                    skipped_big += 1  # gluing > MAX_MATCHES matches of a full-ITS template costs minutes; counted, not judged
                    continue
                sr = apply(pc if invert else rc, tpl, rid, invert, strat)  # a fresh reactor whose results are read before anything else
                carries_all = kind in ("full", "string") or centre_ok  # then an atom off the changed bonds may not change its charge either
                outs = judge_outputs(sr, pc if invert else rc, invert, chi[invert] if carries_all else (ch_b if invert else ch_f), key, fails, key, rule_balanced=carries_all, tpl_change_h=chh[invert], isolated=carries_all)
                n += 1
                if outs is None:
                    continue
                if kind.startswith(("r", "p")):
                    continue  # C04 states regeneration for the centre and the full template only
                if kind == "centre" and not centre_ok:
                    continue
                if kind == "centre" and strat == "comp" and len((pc if invert else rc).split(".")) > centre_pattern_components(s, invert):
                    # the component-aware strategy is documented to return nothing when the substrate has more
                    # components than the pattern (spectator fragments); regeneration is then left to all / bt
                    continue
                if want in result_set(outs):
                    regen += 1
                else:
                    kc = ""
                    fails.append(Fail("C04:not_regenerated", f"{key}: {len(outs)} outputs, none equals the reaction", want, key_extra=key, key_class=kc))
    # the same judgement on other writings of the substrate (atom order decides node ids, match order, hydrogen routing)
    if not fails:
        for invert in (False, True):
            sub = pc if invert else rc
            m = Chem.MolFromSmiles(sub)
            na = m.GetNumAtoms()
            roots = range(na) if TIER[0] != "quick" else sorted({na // 4, na // 2, (3 * na) // 4, na - 1})
            for r in roots:
                w = Chem.MolToSmiles(m, rootedAtAtom=r, canonical=False)
                sr = apply(w, tpls["centre"], rid, invert, "all")
                if len(sr.mappings) > MAX_MATCHES:
                    continue
                key = f"centre,{'bwd' if invert else 'fwd'},all,rewritten"
                judge_outputs(sr, sub, invert, ch_b if invert else ch_f, f"{key} {w}", fails, key, rule_balanced=centre_ok, tpl_change_h=chh[invert])
                n += 1
                if fails:
                    break
            if fails:
                break
    return Outcome(nontrivial=regen > 0, outcome=f"regen{min(regen, 9)}" + ("+skipped_big" if skipped_big else ""), fails=fails, transitions=n)


def check_c04_variants(case):
    """template extracted from every renumbering / rewriting of the reaction; substrate rewritten as well"""
    rid, s = case
    fails = []
    n = 0
    want = er.canon_rxn(s)
    centre_ok = centre_carries_all_changes(s)
    vs = [(t, v) for t, v in er.variants(s, centre_maps(s), TIER[0], SEED[0]) if t != "reverse"]
    if TIER[0] == "quick":
        vs = vs[:10]
    regen = 0
    for tag, v in vs:
        tpls = templates_of(v)
        r, p = er.split(v)
        # the substrate is the variant's own (non-canonical) writing with maps removed
        subs = {}
        for name, side in (("fwd", r), ("bwd", p)):
            m = Chem.MolFromSmiles(side)
            for a in m.GetAtoms():
                a.SetAtomMapNum(0)
            subs[name] = Chem.MolToSmiles(m, canonical=False)
        for kind, tpl in tpls.items():
            if kind == "centre" and not centre_ok:
                continue
            for invert in (False, True):
                n += 1
                if len(apply(subs["bwd" if invert else "fwd"], tpl, rid, invert, "bt").mappings) > MAX_MATCHES:
                    continue
                sr = apply(subs["bwd" if invert else "fwd"], tpl, rid, invert, "bt")  # fresh: results read first
                if want in result_set(sr.smarts_list):
                    regen += 1
                else:
                    kc = ""
                    fails.append(Fail("not_regenerated_variant", f"{tag} {kind} {'bwd' if invert else 'fwd'}: {len(sr.smarts_list)} outputs, none equals the reaction", want, key_extra=f"{kind},{'bwd' if invert else 'fwd'}", key_class=kc))
                    continue
    return Outcome(nontrivial=regen > 0, outcome="var", fails=fails, transitions=n)


def split_fails(out: Outcome, prop: str) -> Outcome:
    """keep only the failures that belong to property `prop` (C04 tags are prefixed)"""
    keep = []
    for f in out.fails:
        if f.tag.startswith("C04:"):
            if prop == "C04":
                f.tag = f.tag[4:]
                keep.append(f)
        elif prop == "C03":
            keep.append(f)
    out.fails = keep
    return out


def gen_foreign(tier, seed):
    """every template (centre) applied to the substrates of other reactions"""
    U = usable_reactions()
    k = 2 if tier == "quick" else 20
    for i, (rid, s) in enumerate(U):
        # templates only within the same corpus/H-mode
        same = [(r2, s2) for r2, s2 in U if r2.split("#")[0] == rid.split("#")[0] and r2 != rid]
        for j in range(k):
            r2, s2 = same[(i * 7 + j * 13 + seed) % len(same)]
            yield [rid, s, r2, s2]


def check_foreign(case):
    rid, s, r2, s2 = case
    fails = []
    n = 0
    tpl = templates_of(s)["centre"]
    g = rd_its(s)
    ch = {False: change_graph_from_rd(g), True: change_graph_from_rd(g, negate=True)}
    rc, pc = sides(s2)
    nout = 0
    centre_ok = centre_carries_all_changes(s)  # a centre rule that misses an off-centre H/charge change is not itself conserving
    for invert in (False, True):
        sub = pc if invert else rc
        for strat in ("all", "bt"):
            sr = apply(sub, tpl, rid, invert, strat)
            key = f"{'bwd' if invert else 'fwd'},{strat}"
            outs = judge_outputs(sr, sub, invert, ch[invert], key, fails, key, rule_balanced=centre_ok)
            n += 1
            nout += len(outs or [])
    return Outcome(nontrivial=nout > 0, outcome=f"outs{min(nout, 9)}", fails=fails, transitions=n)


# ----------------------------------------------------------------------------- chained applications (round trips on doubled substrates)
def centre_string(rsmi: str) -> Optional[str]:
    """the reaction centre written as a reaction string (RDKit fragment SMILES of the centre atoms, hydrogen counts in
    brackets); None when SynKit does not read it back as the centre template"""
    from synkit.IO.chem_converter import rsmi_to_its

    cm = set(centre_maps(rsmi))
    pr = er.parse(rsmi)
    if pr is None or not cm:
        return None
    parts = []
    for m in pr:
        idx = [a.GetIdx() for a in m.GetAtoms() if a.GetAtomMapNum() in cm]
        if not idx:
            return None
        try:
            parts.append(Chem.MolFragmentToSmiles(m, atomsToUse=idx, allHsExplicit=True, canonical=False))
        except Exception:
            return None
    t = ">>".join(parts)
    try:
        back = rsmi_to_its(t)
        want = rsmi_to_its(rsmi, core=True)
    except Exception:
        return None
    same = rm.isomorphic(back, want, lambda x, y: x.get("typesGH") == y.get("typesGH"), lambda x, y: tuple(x.get("order")) == tuple(y.get("order")))
    return t if same and back.number_of_nodes() == want.number_of_nodes() else None


def doubled(side: str) -> str:
    return side + "." + side


def check_round_trip(case):
    """the template as a *string*, applied forwards to two copies of the reactants, then backwards to each product mixture
    (and, under another numbering, backwards first): every reaction on the way is judged like a single application, and
    the backward step must lead back to the mixture it started from"""
    from synkit.Synthesis.Reactor.syn_reactor import SynReactor

    rid, s = case
    kw = mode_kwargs(rid)
    fails = []
    n = 0
    rc, pc = sides(s)
    g = rd_its(s)
    centre_ok = centre_carries_all_changes(s)
    chi = {False: change_graph_from_rd(g, isolated=True), True: change_graph_from_rd(g, negate=True, isolated=True)}
    explicit_mode = not kw
    chh = {False: change_graph_from_rd(g, fold=False), True: change_graph_from_rd(g, fold=False, negate=True)} if explicit_mode else {False: None, True: None}
    maps = er.all_maps(s)
    s2 = er.renumber(s, er.shift_map(maps, 1))
    strings = {}
    cs = centre_string(s) if centre_ok else None
    if cs:
        strings["centre"] = (cs, centre_string(s2))
    strings["full"] = (s, s2)
    chained = 0
    for kind, (t_fwd_first, t_bwd_first) in strings.items():
        for first_inv, t in ((False, t_fwd_first), (True, t_bwd_first)):
            if t is None:
                continue
            start = doubled(pc if first_inv else rc)
            sr = SynReactor(start, t, invert=first_inv, strategy="bt", **kw)
            if len(sr.mappings) > MAX_MATCHES:
                continue
            key = f"{kind},{'bwd' if first_inv else 'fwd'}-first"
            outs = judge_outputs(sr, er.canon_side(start), first_inv, chi[first_inv], f"{key} step 1", fails, key + ",step1", tpl_change_h=chh[first_inv], isolated=True)
            n += 1
            if not outs:
                continue
            for o in outs[:2]:
                r, p = er.split(o)
                mid = er.canon_side(r if first_inv else p)
                if mid is None:
                    continue
                sr2 = SynReactor(mid, t, invert=not first_inv, strategy="bt", **kw)
                if len(sr2.mappings) > MAX_MATCHES:
                    continue
                outs2 = judge_outputs(sr2, mid, not first_inv, chi[not first_inv], f"{key} step 2 on {mid}", fails, key + ",step2", tpl_change_h=chh[not first_inv], isolated=True)
                n += 1
                if outs2 is None:
                    break
                chained += 1
                back = {er.canon_side(er.split(x)[1 if first_inv else 0]) for x in outs2}
                if er.canon_side(start) not in back:
                    fails.append(Fail("round_trip_lost", f"{key}: from {mid} the opposite direction gives {len(outs2)} reactions, none leads back", f"one of them leads back to {er.canon_side(start)}", key_extra=key))
                    break
    return Outcome(nontrivial=chained > 0, outcome=f"chained{min(chained, 9)}", fails=fails, transitions=n)


# ----------------------------------------------------------------------------- C05 / C11c
def no_pruning():
    """context manager: symmetry pruning switched off by rebinding the module-level name the reactor calls"""
    import contextlib
    from synkit.Synthesis.Reactor import syn_reactor as mod

    @contextlib.contextmanager
    def cm():
        orig = mod.deduplicate_matches_with_anchor
        mod.deduplicate_matches_with_anchor = lambda raw, **kw: list(raw)
        try:
            yield
        finally:
            mod.deduplicate_matches_with_anchor = orig

    return cm()


D8_CLASS = "class:multi-component-pattern,result-set-depends-on-pruning-or-numbering"


def pattern_components(tpl) -> int:
    from synkit.Graph.ITS.its_decompose import its_decompose

    l, _ = its_decompose(tpl)
    return len(rm.components(l))


def check_c05(case):
    """result set invariant under template renumbering, substrate rewriting, repetition; strategy inclusions"""
    from synkit.IO.chem_converter import rsmi_to_its

    rid, s = case
    fails = []
    n = 0
    rc, pc = sides(s)
    cm = centre_maps(s)
    vs = [(t, v) for t, v in er.variants(s, cm, TIER[0], SEED[0]) if t != "reverse"]
    tvars = [(t, v) for t, v in vs if t.startswith(("identity", "shift", "reversal", "centre_perm"))]
    if TIER[0] == "quick":
        tvars = tvars[:8]
        # plus exchanges of two centre atoms (numberings over the same label set that move a label onto another atom): all of
        # them for centres of <= 6 atoms, those of two atoms of one element otherwise; the thorough tier has every centre
        # permutation of small centres anyway
        s0 = tvars[0][1]
        pr = er.parse(s0)
        el = {a.GetAtomMapNum(): a.GetSymbol() for a in pr[0].GetAtoms()}
        seen = {v for _, v in tvars}
        cm0 = centre_maps(s0)
        extra = []
        for i in range(len(cm0)):
            for j in range(i + 1, len(cm0)):
                if el.get(cm0[i]) is not None and el.get(cm0[j]) is not None and (len(cm0) <= 6 or el.get(cm0[i]) == el.get(cm0[j])):
                    v = er.renumber(s0, {cm0[i]: cm0[j], cm0[j]: cm0[i]})
                    if v not in seen:
                        seen.add(v)
                        extra.append(("centre_perm", v))
        tvars = tvars + [(f"{t}#{k}", v) for k, (t, v) in enumerate(extra[:15])]
    base = None
    nontriv = False
    for invert in (False, True):
        sub = pc if invert else rc
        sets = {}
        ncomp = None
        for tag, v in tvars:
            tpl = rsmi_to_its(v, core=True)
            if ncomp is None:
                l = tpl
                ncomp = pattern_components(tpl if not invert else tpl)
            sr = apply(sub, tpl, rid, invert, "all")
            sets[tag] = result_set(sr.smarts_list)
            n += 1
        ref = sets[tvars[0][0]]
        nontriv = nontriv or len(ref) > 1
        kc = ""
        for tag, R in sets.items():
            if R != ref:
                fails.append(Fail("template_numbering_changes_results", f"{'bwd' if invert else 'fwd'} {tag}: {len(R)} results vs {len(ref)}; only here {sorted(R - ref)[:1]} only there {sorted(ref - R)[:1]}",
                                  "same set of distinct reactions", key_extra=f"{'bwd' if invert else 'fwd'}", key_class=kc))
                break
        tpl0 = rsmi_to_its(tvars[0][1], core=True)
        # substrate rewritings
        m = Chem.MolFromSmiles(sub)
        rew = []
        na = m.GetNumAtoms()
        for r in (range(na) if TIER[0] != "quick" else sorted({0, na // 3, na // 2, na - 1})):
            rew.append(Chem.MolToSmiles(m, rootedAtAtom=r, canonical=False))
        rew += er.fragment_orders(sub, TIER[0] != "quick")
        for w in rew:
            R = result_set(apply(w, tpl0, rid, invert, "all").smarts_list)
            n += 1
            if R != ref:
                fails.append(Fail("substrate_rewriting_changes_results", f"{'bwd' if invert else 'fwd'} {w}: {len(R)} results vs {len(ref)}", "same set of distinct reactions", key_extra=f"{'bwd' if invert else 'fwd'}", key_class=kc))
                break
        # substrate handed over as a graph under other node numberings
        for name, h in relabelled_graphs(sub):
            if TIER[0] == "quick" and name not in ("shift1", "odd"):
                continue
            R = result_set(apply(h, tpl0, rid, invert, "all").smarts_list)
            n += 1
            if R != ref:
                fails.append(Fail("graph_numbering_changes_results", f"{'bwd' if invert else 'fwd'} substrate graph numbered '{name}': {len(R)} results vs {len(ref)}", "same set of distinct reactions", key_extra=f"{'bwd' if invert else 'fwd'}"))
                break
        # repetition on the same reactor object and on a fresh one sharing the template graph object
        sr = apply(sub, tpl0, rid, invert, "all")
        r1 = result_set(sr.smarts_list)
        r2 = result_set(sr.smarts_list)
        r3 = result_set(apply(sub, tpl0, rid, invert, "all").smarts_list)
        n += 2
        if not (r1 == r2 == r3 == ref):
            fails.append(Fail("repetition_changes_results", f"{'bwd' if invert else 'fwd'}: sizes {len(r1)},{len(r2)},{len(r3)} vs {len(ref)}", "same set on every call", key_extra=f"{'bwd' if invert else 'fwd'}"))
        # strategies
        Rall = ref
        Rcomp = result_set(apply(sub, tpl0, rid, invert, "comp").smarts_list)
        Rbt = result_set(apply(sub, tpl0, rid, invert, "bt").smarts_list)
        n += 2
        if not Rcomp <= Rall:
            fails.append(Fail("comp_not_subset_of_all", f"{'bwd' if invert else 'fwd'}: {sorted(Rcomp - Rall)[:1]}", "component-aware results are a subset of the exhaustive ones", key_extra=f"{'bwd' if invert else 'fwd'}", key_class=kc))
        if Rcomp and Rbt != Rcomp:
            fails.append(Fail("bt_differs_from_comp", f"{'bwd' if invert else 'fwd'}: |bt|={len(Rbt)} |comp|={len(Rcomp)}", "fallback strategy returns the component-aware result when non-empty", key_extra=f"{'bwd' if invert else 'fwd'}"))
        if not Rcomp and Rbt != Rall:
            fails.append(Fail("bt_differs_from_all", f"{'bwd' if invert else 'fwd'}: |bt|={len(Rbt)} |all|={len(Rall)}", "fallback strategy returns the exhaustive result when the component-aware one is empty", key_extra=f"{'bwd' if invert else 'fwd'}"))
        # the same invariance with symmetry pruning by rule automorphisms switched on
        d = "bwd" if invert else "fwd"
        aref = result_set(apply(sub, tpl0, rid, invert, "all", automorphism=True).smarts_list)
        n += 1
        for tag, v in tvars[1:] if TIER[0] != "quick" else tvars[1:5]:
            R = result_set(apply(sub, rsmi_to_its(v, core=True), rid, invert, "all", automorphism=True).smarts_list)
            n += 1
            if R != aref:
                fails.append(Fail("template_numbering_changes_results", f"{d} automorphism=True {tag}: {len(R)} results vs {len(aref)}; only here {sorted(R - aref)[:1]} only there {sorted(aref - R)[:1]}",
                                  "same set of distinct reactions", key_extra=f"{d},auto"))
                break
        for w in rew:
            R = result_set(apply(w, tpl0, rid, invert, "all", automorphism=True).smarts_list)
            n += 1
            if R != aref:
                fails.append(Fail("substrate_rewriting_changes_results", f"{d} automorphism=True {w}: {len(R)} results vs {len(aref)}", "same set of distinct reactions", key_extra=f"{d},auto"))
                break
        Rcomp_a = result_set(apply(sub, tpl0, rid, invert, "comp", automorphism=True).smarts_list)
        n += 1
        if not Rcomp_a <= aref:
            fails.append(Fail("comp_not_subset_of_all", f"{d} automorphism=True: {sorted(Rcomp_a - aref)[:1]}", "component-aware results are a subset of the exhaustive ones", key_extra=f"{d},auto"))
    return Outcome(nontrivial=nontriv, outcome="c05", fails=fails, transitions=n)


def gen_cur_foreign(tier, seed):
    from mc.curated import CURATED, CUR_FOREIGN, minimal_explicit

    for name, subs in CUR_FOREIGN.items():
        for sub in subs:
            yield [f"cur#{name}", minimal_explicit(CURATED[name]), sub]


def relabel_template(T: nx.Graph, perm: Dict) -> nx.Graph:
    """the template graph with its node ids permuted over its own id set (atom_map follows the id)"""
    H = type(T)()
    H.graph.update(T.graph)
    for v in sorted(T.nodes, key=lambda x: perm.get(x, x)):
        d = dict(T.nodes[v])
        if "atom_map" in d:
            d["atom_map"] = perm.get(v, v)
        H.add_node(perm.get(v, v), **d)
    for u, v, d in T.edges(data=True):
        H.add_edge(perm.get(u, u), perm.get(v, v), **dict(d))
    return H


def own_label_permutations(nodes, limit_double=60):
    """permutations of a template's own id set: identity, rotation, reversal, every exchange of two ids, every pair of disjoint exchanges (small templates)"""
    nodes = sorted(nodes)
    n = len(nodes)
    out = [("identity", {})]
    if n > 1:
        out.append(("rotation", {nodes[i]: nodes[(i + 1) % n] for i in range(n)}))
        out.append(("reversal", {nodes[i]: nodes[n - 1 - i] for i in range(n)}))
    pairs = [(nodes[i], nodes[j]) for i in range(n) for j in range(i + 1, n)]
    if n <= 8:
        for a, b in pairs:
            out.append((f"exchange{a}-{b}", {a: b, b: a}))
    if n <= 6:
        k = 0
        for i, (a, b) in enumerate(pairs):
            for c, d in pairs[i + 1:]:
                if len({a, b, c, d}) == 4 and k < limit_double:
                    out.append((f"exchange{a}-{b},{c}-{d}", {a: b, b: a, c: d, d: c}))
                    k += 1
    return out


def check_cur_foreign(case):
    """a hand-written rule (centre, and centre + first shell) on substrates with several inequivalent sites: the set of distinct
    reactions is the same for every numbering of the template over its own id set (rotation, reversal, every exchange of two ids,
    every pair of disjoint exchanges), every writing of the substrate, both pruning modes, and every output is a genuine instance"""
    rid, s, sub0 = case
    fails = []
    n = 0
    sub = er.canon_side(sub0)
    g = rd_its(s)
    centre_ok = centre_carries_all_changes(s)
    ch = change_graph_from_rd(g, isolated=centre_ok)
    tpls = templates_of(s, radii=(1,))
    m = Chem.MolFromSmiles(sub)
    na = m.GetNumAtoms()
    rew = [Chem.MolToSmiles(m, rootedAtAtom=r, canonical=False) for r in (range(na) if TIER[0] != "quick" else sorted({0, na // 2, na - 1}))] + er.fragment_orders(sub, TIER[0] != "quick")
    nontriv = False
    for kind in ("centre", "r1"):
        if kind not in tpls:
            continue
        T = tpls[kind]
        perms = own_label_permutations(T.nodes)
        for auto in (False, True):
            ref = None
            for tag, perm in perms:
                sr = apply(sub, relabel_template(T, perm), rid, False, "all", automorphism=auto)
                if len(sr.mappings) > MAX_MATCHES:
                    break
                if auto is False and tag == "identity":
                    judge_outputs(sr, sub, False, ch, f"{kind} {sub}", fails, "judge", rule_balanced=centre_ok, isolated=centre_ok)
                R = result_set(sr.smarts_list)
                n += 1
                if ref is None:
                    ref = R
                    nontriv = nontriv or len(R) > 1
                elif R != ref:
                    fails.append(Fail("template_numbering_changes_results", f"{kind} automorphism={auto} {tag}: {len(R)} results vs {len(ref)}; only here {sorted(R - ref)[:1]} only there {sorted(ref - R)[:1]}", "same set of distinct reactions", key_extra=f"{kind},{auto}"))
                    break
            if ref is None:
                continue
            for w in rew:
                R = result_set(apply(w, T, rid, False, "all", automorphism=auto).smarts_list)
                n += 1
                if R != ref:
                    fails.append(Fail("substrate_rewriting_changes_results", f"{kind} automorphism={auto} {w}: {len(R)} results vs {len(ref)}", "same set of distinct reactions", key_extra=f"{kind},{auto}"))
                    break
            Rc = result_set(apply(sub, T, rid, False, "comp", automorphism=auto).smarts_list)
            Rb = result_set(apply(sub, T, rid, False, "bt", automorphism=auto).smarts_list)
            n += 2
            if not Rc <= ref:
                fails.append(Fail("comp_not_subset_of_all", f"{kind} automorphism={auto}: {sorted(Rc - ref)[:1]}", "component-aware results are a subset of the exhaustive ones", key_extra=f"{kind},{auto}"))
            if (Rc and Rb != Rc) or (not Rc and Rb != ref):
                fails.append(Fail("bt_differs", f"{kind} automorphism={auto}: |bt|={len(Rb)} |comp|={len(Rc)} |all|={len(ref)}", "fallback = component-aware result when non-empty, else the exhaustive one", key_extra=f"{kind},{auto}"))
    return Outcome(nontrivial=nontriv, outcome=f"multi{int(nontriv)}", fails=fails, transitions=n)


def check_template_forms(case):
    """the same template handed over as reaction string, as ITS graph and as SynRule object gives the same reactions"""
    from synkit.Rule.syn_rule import SynRule
    from synkit.Synthesis.Reactor.syn_reactor import SynReactor

    rid, s = case
    kw = mode_kwargs(rid)
    fails = []
    n = 0
    rc, pc = sides(s)
    tpls = templates_of(s)
    nontriv = False
    for invert in (False, True):
        sub = pc if invert else rc
        for kind in ("centre", "full"):
            g = tpls[kind]
            sr = SynReactor(sub, g, invert=invert, strategy="bt", **kw)
            if len(sr.mappings) > MAX_MATCHES:
                continue
            ref = result_set(sr.smarts_list)
            nontriv = nontriv or bool(ref)
            forms = {"synrule_object": lambda: SynRule(g, implicit_h=not kw)}
            if kind == "full":
                forms["reaction_string"] = lambda: s
            for fname, mk in forms.items():
                try:
                    got = result_set(SynReactor(sub, mk(), invert=invert, strategy="bt", **kw).smarts_list)
                except Exception as e:
                    got = f"{type(e).__name__}: {e}"
                n += 1
                if got != ref:
                    fails.append(Fail("template_form_changes_results", f"{kind} {'bwd' if invert else 'fwd'} template as {fname}: {len(got) if not isinstance(got, str) else got} results vs {len(ref)} with the ITS graph",
                                      "same set of distinct reactions", key_extra=f"{kind},{'bwd' if invert else 'fwd'},{fname}"))
    return Outcome(nontrivial=nontriv, outcome="forms", fails=fails, transitions=n)


def multi_component(rsmi: str, invert: bool) -> bool:
    """does the centre pattern (left side of the applied rule) have more than one connected component?"""
    return centre_pattern_components(rsmi, invert) > 1


def centre_pattern_components(rsmi: str, invert: bool) -> int:
    g = fold_h(rd_its(rsmi))
    c = change_graph_from_rd(g, fold=False)
    side = 1 if invert else 0
    h = nx.Graph()
    h.add_nodes_from(c.nodes)
    for u, v in c.edges:
        if g[u][v]["order"][side] > 0:
            h.add_edge(u, v)
    return len(rm.components(h))


def check_pruning(case):
    """C11(c): symmetry pruning never changes the set of distinct reactions (vs. gluing every raw match)"""
    rid, s = case
    fails = []
    n = 0
    rc, pc = sides(s)
    tpls = templates_of(s)
    nontriv = False
    for kind in ("centre",) if TIER[0] == "quick" else ("centre", "full"):
        tpl = tpls[kind]
        for invert in (False, True):
            sub = pc if invert else rc
            for auto in (False, True):
                sr = apply(sub, tpl, rid, invert, "all", automorphism=auto)
                R = result_set(sr.smarts_list)
                kept = len(sr.mappings)
                with no_pruning():
                    sr2 = apply(sub, tpl, rid, invert, "all", automorphism=auto)
                    R0 = result_set(sr2.smarts_list)
                    raw = len(sr2.mappings)
                n += 2
                nontriv = nontriv or kept < raw
                if R != R0:
                    kc = ""
                    fails.append(Fail("pruning_changes_results", f"{kind} {'bwd' if invert else 'fwd'} automorphism={auto}: {len(R)} distinct reactions with pruning ({kept}/{raw} matches kept), {len(R0)} without",
                                      "same set of distinct reactions", key_extra=f"{kind},{'bwd' if invert else 'fwd'},{auto}", key_class=kc))
    return Outcome(nontrivial=nontriv, outcome="pruned" if nontriv else "nothing_pruned", fails=fails, transitions=n)


# ----------------------------------------------------------------------------- synthetic two-component family (D8)
def synthetic_cases(tier, seed):
    """addition of X-Y across C=C: every choice of X,Y, of the component order and numbering of the rule, of the substrate"""
    halo = ["I", "Cl", "Br"]
    subs = ["CC=C", "C=C", "CC=CC", "CC(C)=C", "C=CC=C", "C1=CCCCC1"]
    for x, y in itertools.product(halo, repeat=2):
        for nums in itertools.permutations((1, 2, 3, 4)):
            a, b, c, d = nums
            for xy_first in (True, False):
                left = [f"[{x}:{a}][{y}:{b}]", f"[C:{c}]=[C:{d}]"]
                if not xy_first:
                    left = left[::-1]
                rule = ".".join(left) + f">>[C:{c}]([{x}:{a}])[C:{d}][{y}:{b}]"
                for sub in subs:
                    for sub_first in (True, False):
                        frs = [sub, f"{x}{y}"]
                        yield [rule, ".".join(frs if sub_first else frs[::-1])]


def check_synthetic(case):
    from synkit.Synthesis.Reactor.syn_reactor import SynReactor

    rule, sub = case
    fails = []
    n = 0
    ref = None
    for auto in (False, True):
        for strat in ("all", "comp"):
            sr = SynReactor(sub, rule, strategy=strat, automorphism=auto, explicit_h=False, implicit_temp=True)
            R = result_set(sr.smarts_list)
            with no_pruning():
                R0 = result_set(SynReactor(sub, rule, strategy=strat, automorphism=auto, explicit_h=False, implicit_temp=True).smarts_list)
            n += 2
            if R != R0:
                fails.append(Fail("pruning_changes_results", f"automorphism={auto} strategy={strat}: {sorted(R)} with pruning, {sorted(R0)} without", "same set of distinct reactions", key_extra=f"{auto},{strat}", key_class=D8_CLASS))
    return Outcome(nontrivial=True, outcome="syn", fails=fails, transitions=n)


# ----------------------------------------------------------------------------- wildcard rules and graph substrates
WILDCARD_RULES = [
    "[CH3:1][CH2:2][C:3](=[O:4])[O:5][CH3:6].[OH:7][*:8]>>[CH3:1][CH2:2][C:3](=[O:4])[O:7][*:8].[OH:5][CH3:6]",
    "[CH3:1][C:2](=[O:3])[Cl:4].[NH2:6][*:5]>>[CH3:1][C:2](=[O:3])[NH:6][*:5].[ClH:4]",
    "[*:1][CH:2]=[O:3].[NH2:4][CH3:5]>>[*:1][CH:2]=[N:4][CH3:5].[OH2:3]",
    "[*:1][C:2](=[O:3])[OH:4].[OH:5][*:6]>>[*:1][C:2](=[O:3])[O:5][*:6].[OH2:4]",
]
WILDCARD_SUBS = ["CCC(=O)OC.O", "CCC(=O)OC.CO", "CCC(=O)OC.CCO", "CC(=O)Cl.N", "CC(=O)Cl.CN", "C=O.CN", "CC=O.CN", "c1ccccc1C=O.CN", "OC=O.O", "CC(=O)O.CO", "CC(=O)O.OCC", "OC(=O)CC(=O)O.CO"]


def relabelled_graphs(sub: str):
    """the substrate as a graph under several node numberings: shifted (contains N+1), gapped, odd, reversed"""
    from synkit.IO.chem_converter import smiles_to_graph

    g = smiles_to_graph(sub, drop_non_aam=False, use_index_as_atom_map=False)
    nodes = sorted(g.nodes)
    n = len(nodes)
    schemes = {
        "shift1": {v: v + 1 for v in nodes},
        "gap": {v: (v if i < n // 2 else v + 1) for i, v in enumerate(nodes)},
        "odd": {v: 2 * v + 3 for v in nodes},
        "reversed": {v: nodes[n - 1 - i] for i, v in enumerate(nodes)},
        "zero_based": {v: i for i, v in enumerate(nodes)},
    }
    for name, m in schemes.items():
        h = nx.Graph()
        for v in sorted(nodes, key=lambda x: m[x]):
            h.add_node(m[v], **dict(g.nodes[v]))
        for u, v, d in g.edges(data=True):
            h.add_edge(m[u], m[v], **dict(d))
        yield name, h


def gen_wildcard(tier, seed):
    for r in WILDCARD_RULES:
        for sub in WILDCARD_SUBS:
            yield [r, sub]


def check_wildcard(case):
    from synkit.Synthesis.Reactor.syn_reactor import SynReactor

    rule, sub = case
    fails = []
    n = 0
    kw = dict(explicit_h=False, implicit_temp=True)
    subc = er.canon_side(sub)
    nout = 0
    for invert in (False,):
        for strat in ("all", "bt"):
            sr = SynReactor(sub, rule, strategy=strat, invert=invert, **kw)
            outs = sr.smarts_list
            n += 1
            nout += len(outs)
            for o in outs:
                r, p = er.split(o)
                if er.canon_side(r) != subc:
                    fails.append(Fail("substrate_not_preserved", f"{strat}: {er.canon_side(r)}", subc, key_extra=strat))
                    break
            ref = result_set(outs)
            for name, h in relabelled_graphs(sub):
                outs2 = SynReactor(h, rule, strategy=strat, invert=invert, **kw).smarts_list
                n += 1
                bad = [o for o in outs2 if er.canon_side(er.split(o)[0]) != subc]
                if bad:
                    fails.append(Fail("substrate_not_preserved", f"{strat}, substrate given as graph numbered '{name}': {er.canon_side(er.split(bad[0])[0])}", subc, key_extra=f"{strat},{name}"))
                elif result_set(outs2) != ref:
                    fails.append(Fail("graph_numbering_changes_results", f"{strat}, substrate given as graph numbered '{name}': {sorted(result_set(outs2))}", f"{sorted(ref)}", key_extra=f"{strat},{name}"))
    return Outcome(nontrivial=nout > 0, outcome=f"outs{min(nout, 9)}", fails=fails, transitions=n)


# ----------------------------------------------------------------------------- Sub lists per property
def setup(tier, seed):
    TIER[0], SEED[0] = tier, seed


def c03_subs(tier, seed):
    setup(tier, seed)
    return [
        Sub("own_template", gen_rxn_both_modes, lambda c: split_fails(check_c03_c04(c), "C03"), key=lambda c: c[0], rule="own-template applications; explicit-hydrogen reactions also with every hydrogen implicit in implicit-H mode"),
        Sub("round_trip", gen_rxn_both_modes, check_round_trip, key=lambda c: c[0], rule="template as reaction string (centre and full) on two copies of the reactants, then the opposite direction on each product mixture; also backwards first under another numbering"),
        Sub("foreign_template", gen_foreign, check_foreign, key=lambda c: f"{c[0]}->{c[2]}", rule="foreign-template applications"),
        Sub("wildcard_rules", gen_wildcard, check_wildcard, key=lambda c: f"{c[0]} @ {c[1]}", rule="4 wildcard rules x 12 substrates (group present / absent), substrate as SMILES and as graph under 5 node numberings"),
    ]


def c04_subs(tier, seed):
    setup(tier, seed)
    return [
        Sub("own_template", gen_rxn, lambda c: split_fails(check_c03_c04(c), "C04"), key=lambda c: c[0], rule="own-template regeneration"),
        Sub("variants", gen_rxn, check_c04_variants, key=lambda c: c[0], rule="template taken from every renumbering / rewriting of the reaction, substrate written as in the variant"),
    ]


def c05_subs(tier, seed):
    setup(tier, seed)
    return [
        Sub("representations", gen_rxn, check_c05, key=lambda c: c[0], rule="representation independence"),
        Sub("curated_foreign", gen_cur_foreign, check_cur_foreign, key=lambda c: f"{c[0]} @ {c[2]}", rule="hand-written rules (centre; centre + first shell) on 2-3 substrates each that offer several inequivalent sites: every numbering of the template over its own id set "
            "(rotation, reversal, every exchange of two ids, every pair of disjoint exchanges), every writing of the substrate, pruning modes, strategies"),
        Sub("template_forms", gen_rxn, check_template_forms, key=lambda c: c[0], rule="template as reaction string / ITS graph / SynRule object, centre and full, forwards and backwards"),
    ]


def c11_subs(tier, seed):
    setup(tier, seed)
    return [
        Sub("pruning_corpus", gen_rxn, check_pruning, key=lambda c: c[0], rule="pruning on vs every raw match, corpus pairs"),
        Sub("pruning_synthetic", synthetic_cases, check_synthetic, key=lambda c: f"{c[0]} @ {c[1]}", rule="pruning on vs every raw match, X-Y + C=C family"),
    ]
