"""C07 — isomorphism verdicts, embeddings, pre-filters, query histories (E1 + E2)."""
from __future__ import annotations

import itertools

from mc import enum_graphs as eg
from mc import ref_match as rm
from mc.core import Acc, Fail, Outcome, Sub, run_subs

PROPERTY = "C07"
ASSUMPTIONS = [
    "alphabet: node labels (C,0),(C,+1),(O,0); bond orders {1,2}; second family: carbon with hcount in {0,1,absent}",
    "containment for get_mappings is the implementation's own notion (induced subgraph isomorphism with attribute equality and host hcount >= pattern hcount)",
    "isomorphic(obj1,obj2) names no host: with differing hcounts the verdict must equal the definition in one of the two directions; it must be symmetric whenever both directions agree",
    "in-place mutation of a graph between queries is documented as unsupported and is not part of the query histories",
]
RULE = {
    "quick": "class representatives n<=3 x all labelled graphs n<=3 over 3 node labels x 2 bond orders (ordered both ways by the calls made), each pair queried through "
    "GraphMatcherEngine.isomorphic / get_mappings (filter on/off, max_mappings None/1), SubgraphMatch.subgraph_isomorphism / is_subgraph and graph_morphism twins "
    "(use_filter on/off, induced/monomorphism, disjoint and overlapping node ids); hcount family n<=3; all query histories of depth 2 over 4 engines x 2 operations x ordered pairs of 4 colliding graphs and 3 graphs derived from them by copy/relabel/subgraph and then edited (derivation after the first query); find_graph_isomorphism with default matchers, invariant pre-check on/off, default-valued attributes written out / left out; the search engine's pre-filter on/off; engines with two selected bond attributes (the second constant); "
    "one long-lived engine under the id seam (all sequences of two ordered pairs of the colliding graphs, built, queried, dropped); non-trivial = graphs isomorphic or pattern contained",
    "thorough": "quick + representatives n<=4 (<=4 bonds) x labelled n<=3 and n<=3 x n=4 representatives; histories of depth 3 over the filter-enabled engines",
}

VATTR = [{"element": "C", "charge": 0}, {"element": "C", "charge": 1}, {"element": "O", "charge": 0}]
EATTR = [{"order": 1.0}, {"order": 2.0}]
HATTR = [{"element": "C", "charge": 0, "hcount": 0}, {"element": "C", "charge": 0, "hcount": 1}, {"element": "C", "charge": 0}]


def gen_pairs(tier, seed):
    reps = [c for n in (1, 2, 3) for c in eg.representatives(n, 3, 2)]
    lab = [c for n in (1, 2, 3) for c in eg.all_labelled(n, 3, 2)]
    for a in reps:
        sa = eg.code_str(a)
        for b in lab:
            yield [sa, eg.code_str(b), "v"]
    if tier != "quick":
        reps4 = [c for c in eg.representatives(4, 3, 2) if eg.n_edges(c) <= 4]
        for a in reps4:
            sa = eg.code_str(a)
            for b in lab:
                yield [sa, eg.code_str(b), "v"]
                yield [eg.code_str(b), sa, "v"]


def gen_h(tier, seed):
    reps = [c for n in (1, 2, 3) for c in eg.representatives(n, 3, 1)]
    lab = [c for n in (1, 2, 3) for c in eg.all_labelled(n, 3, 1)]
    for a in reps:
        for b in lab:
            yield [eg.code_str(a), eg.code_str(b), "h"]


def build(s, kind, base=0):
    code = eg.parse_code(s)
    n = len(code[0])
    return eg.to_nx(code, HATTR if kind == "h" else VATTR, EATTR, node_ids=list(range(base + 1, base + n + 1)))


def sparse_pairs(a, b):
    """the pair as built (no atom_map / hcount keys), with the defaults written out on one side, on every other atom, and
    'order' left out on the single bonds of one side"""
    def written(g, which):
        h = g.copy()
        for k, v in enumerate(sorted(h.nodes)):
            if which(k):
                h.nodes[v].update(atom_map=0, hcount=0)
        return h

    def no_single(g):
        h = g.copy()
        for u, v in h.edges:
            if h[u][v].get("order") == 1.0:
                del h[u][v]["order"]
        return h

    yield "as_built", (a, b)
    yield "defaults_written_left", (written(a, lambda k: True), b)
    yield "defaults_written_alternating", (written(a, lambda k: k % 2 == 0), written(b, lambda k: k % 2 == 1))
    yield "single_order_omitted_right", (a, no_single(b))


def node_ok_h(p, h):
    return p["element"] == h["element"] and p["charge"] == h["charge"] and h.get("hcount", 0) >= p.get("hcount", 0)


def node_eq(p, h):
    return p["element"] == h["element"] and p["charge"] == h["charge"]


def edge_ok(p, h):
    return p["order"] == h["order"]


def valid_embedding(m, pat, host, nok):
    if set(m.keys()) != set(pat.nodes) or len(set(m.values())) != len(m) or not set(m.values()) <= set(host.nodes):
        return False
    for p in pat.nodes:
        if not nok(pat.nodes[p], host.nodes[m[p]]):
            return False
    for u, v in itertools.combinations(list(pat.nodes), 2):
        pe = pat.has_edge(u, v)
        he = host.has_edge(m[u], m[v])
        if pe != he:
            return False
        if pe and not edge_ok(pat[u][v], host[m[u]][m[v]]):
            return False
    return True


def engine_part(a, b, kind, attrs, fails, GraphMatcherEngine):
    """GraphMatcherEngine verdicts and embeddings for one attribute selection (the hcount rule always applies)"""
    sel = tuple(attrs)

    def nok(p, h):
        return all(p.get(k) == h.get(k) for k in sel) and h.get("hcount", 0) >= p.get("hcount", 0)

    tagsel = "attrs=" + (",".join(sel) or "none")
    iso_ab = rm.isomorphic(b, a, nok, edge_ok)
    iso_ba = rm.isomorphic(a, b, nok, edge_ok)
    for wl in (False, True):
        eng = GraphMatcherEngine(node_attrs=list(attrs), edge_attrs=["order"], wl1_filter=wl, max_mappings=None)
        g1 = eng.isomorphic(a, b)
        g2 = eng.isomorphic(b, a)
        if g1 not in (iso_ab, iso_ba) or g2 not in (iso_ab, iso_ba):
            fails.append(Fail("isomorphic", f"{tagsel} wl={wl}: ({g1},{g2})", f"definition: host=obj1 {iso_ab}, host=obj2 {iso_ba}", key_extra=f"{tagsel},wl={wl}"))
        elif iso_ab == iso_ba and g1 != g2:
            fails.append(Fail("isomorphic_asymmetric", f"{tagsel} wl={wl}: ({g1},{g2})", f"{iso_ab} both ways", key_extra=f"{tagsel},wl={wl}"))
    for wl in (False, True):
        eng = GraphMatcherEngine(node_attrs=list(attrs), edge_attrs=["order"], wl1_filter=wl, max_mappings=None)
        if eng.isomorphic(a, a) is not True or not eng.get_mappings(a, a):
            fails.append(Fail("same_object_pair", f"{tagsel} wl={wl}: isomorphic(a,a)={eng.isomorphic(a, a)} mappings={eng.get_mappings(a, a)}", "True and at least one mapping", key_extra=f"{tagsel},wl={wl}"))
    contained_any = False
    for pat, host, tag in ((a, b, "a_in_b"), (b, a, "b_in_a")):
        want = [m for m in rm.morphisms(pat, host, nok, edge_ok, induced=True)]
        contained_any = contained_any or bool(want)
        res_sets = {}
        for wl in (False, True):
            for mm in (None, 1):
                eng = GraphMatcherEngine(node_attrs=list(attrs), edge_attrs=["order"], wl1_filter=wl, max_mappings=mm)
                res = eng.get_mappings(host, pat)
                key = f"{tagsel},{tag},wl={wl},max={mm}"
                bad = [m for m in res if not valid_embedding(dict(m), pat, host, nok)]
                if bad:
                    fails.append(Fail("invalid_embedding", f"{key}: {bad[0]}", "a pattern->host embedding", key_extra=key))
                elif bool(res) != bool(want):
                    fails.append(Fail("embedding_existence", f"{key}: {len(res)} mappings", f"{len(want)} embeddings exist", key_extra=key))
                elif mm == 1 and len(res) > 1:
                    fails.append(Fail("max_mappings", f"{key}: {len(res)}", "<= 1", key_extra=key))
                if mm is None:
                    res_sets[wl] = {tuple(sorted(dict(m).items())) for m in res}
        if res_sets[False] != res_sets[True]:
            fails.append(Fail("filter_changes_result_set", f"{tagsel} {tag}: {len(res_sets[False])} vs {len(res_sets[True])}", "same set", key_extra=f"{tagsel},{tag}"))
        # the search engine's own cheap pre-filter: on or off, the set of embeddings is the same
        from synkit.Graph.Matcher.subgraph_matcher import SubgraphSearchEngine as SE

        for strat in ("all", "bt"):
            sets = []
            for pf in (False, True):
                sets.append({tuple(sorted(dict(m).items())) for m in SE.find_subgraph_mappings(host, pat, node_attrs=list(attrs), edge_attrs=["order"], strategy=strat, pre_filter=pf)})
            if sets[0] != sets[1]:
                fails.append(Fail("search_pre_filter_changes_result_set", f"{tagsel} {tag} {strat}: {len(sets[0])} embeddings without, {len(sets[1])} with the pre-filter", "same set", key_extra=f"{tagsel},{tag},{strat}"))
    return iso_ab or iso_ba or contained_any


def check(case):
    from synkit.Graph.Matcher.graph_matcher import GraphMatcherEngine
    from synkit.Graph.Matcher.subgraph_matcher import SubgraphMatch
    from synkit.Graph.Matcher import graph_morphism as gmor

    sa, sb, kind = case
    fails = []
    ncalls = 0
    GraphMatcherEngine._wl_cache.clear()
    a = build(sa, kind, 0)  # ids 1..n
    b = build(sb, kind, 10)  # ids 11..
    nontriv_any = False
    for attrs in (["element", "charge"], []):
        nt = engine_part(a, b, kind, attrs, fails, GraphMatcherEngine)
        nontriv_any = nontriv_any or nt
        ncalls += 12
    nok = node_ok_h
    iso_ab = rm.isomorphic(b, a, nok, edge_ok)
    iso_ba = rm.isomorphic(a, b, nok, edge_ok)
    # two selected bond attributes, the second one constant: the verdicts and embeddings are those of the first alone
    a2, b2 = a.copy(), b.copy()
    for g in (a2, b2):
        for u, v in g.edges:
            g[u][v]["standard_order"] = 0.0
    for eattrs in (["order", "standard_order"], ["standard_order", "order"]):
        eng = GraphMatcherEngine(node_attrs=["element", "charge"], edge_attrs=eattrs, wl1_filter=False, max_mappings=None)
        v1 = eng.isomorphic(a2, b2)
        ncalls += 1
        if v1 not in (iso_ab, iso_ba):
            fails.append(Fail("two_bond_attributes", f"edge_attrs={eattrs}: isomorphic={v1}", f"{iso_ab} (as with 'order' alone; the other attribute is constant)", key_extra=",".join(eattrs)))
        for pat, host in ((a2, b2), (b2, a2)):
            res = eng.get_mappings(host, pat)
            ncalls += 1
            bad = [m for m in res if not valid_embedding(dict(m), pat, host, nok)]
            if bad:
                fails.append(Fail("two_bond_attributes", f"edge_attrs={eattrs}: embedding {bad[0]} does not preserve the bond orders", "valid pattern->host embeddings", key_extra=",".join(eattrs) + ",emb"))
                break
    if kind == "v":
        g = gmor.graph_isomorphism(a, b, use_defaults=True)
        ncalls += 1
        if g != iso_ab:
            fails.append(Fail("graph_isomorphism", str(g), str(iso_ab)))
        m = gmor.find_graph_isomorphism(a, b, node_match=lambda x, y: node_eq(x, y), edge_match=edge_ok)
        ncalls += 1
        if (m is not None) != iso_ab or (m is not None and not valid_embedding(m, a, b, node_eq)):
            fails.append(Fail("find_graph_isomorphism", str(m), f"mapping iff {iso_ab}"))
        # default matchers (element, atom_map, hcount with defaults '*', 0, 0; order with default 1): the verdict may not depend on
        # the cheap invariant pre-check, nor on whether a default-valued attribute is written out or left out
        want_def = rm.isomorphic(a, b, lambda x, y: x["element"] == y["element"], edge_ok)
        for sname, (a2, b2) in sparse_pairs(a, b):
            for fic in (True, False):
                m = gmor.find_graph_isomorphism(a2, b2, fast_invariant_check=fic)
                ncalls += 1
                if (m is not None) != want_def:
                    fails.append(Fail("default_matcher", f"{sname} fast_invariant_check={fic}: {m}", f"mapping iff {want_def}", key_extra=f"{sname},{fic}"))
    contained_any = nontriv_any
    for pat, host, tag in ((a, b, "a_in_b"), (b, a, "b_in_a")):
        # ---------------- boolean subgraph tests (attribute equality; no hcount rule there)
        if kind == "v":
            for induced in (True, False):
                w = any(True for _ in rm.morphisms(pat, host, node_eq, edge_ok, induced=induced, limit=1))
                ct = "induced" if induced else "monomorphism"
                for uf in (False, True):
                    for fn_name, fn in (("SubgraphMatch.subgraph_isomorphism", SubgraphMatch.subgraph_isomorphism), ("graph_morphism.subgraph_isomorphism", gmor.subgraph_isomorphism)):
                        got = fn(pat, host, use_filter=uf, check_type=ct)
                        ncalls += 1
                        if bool(got) != w:
                            fails.append(Fail("subgraph_test", f"{fn_name} {tag} {ct} use_filter={uf}: {got}", str(w), key_extra=f"{fn_name},{tag},{ct},{uf}"))
                    got = SubgraphMatch.is_subgraph(pat, host, use_filter=uf, check_type=ct)
                    ncalls += 1
                    if bool(got) != w:
                        fails.append(Fail("is_subgraph", f"{tag} {ct} use_filter={uf}: {got}", str(w), key_extra=f"{tag},{ct},{uf}"))
    # overlapping ids: the same host numbered 1..n as the pattern is
    if kind == "v":
        b2 = build(sb, kind, 0)
        for induced in (True, False):
            w = any(True for _ in rm.morphisms(a, b2, node_eq, edge_ok, induced=induced, limit=1))
            ct = "induced" if induced else "monomorphism"
            for fn_name, fn in (("SubgraphMatch.subgraph_isomorphism", SubgraphMatch.subgraph_isomorphism), ("graph_morphism.subgraph_isomorphism", gmor.subgraph_isomorphism)):
                got = fn(a, b2, use_filter=True, check_type=ct)
                ncalls += 1
                if bool(got) != w:
                    fails.append(Fail("subgraph_test_overlapping_ids", f"{fn_name} {ct}: {got}", str(w), key_extra=f"{fn_name},{ct}"))
    nt = iso_ab or iso_ba or contained_any
    return Outcome(nontrivial=bool(nt), outcome=f"iso{int(iso_ab)}{int(iso_ba)}c{int(contained_any)}", fails=fails, transitions=ncalls)


# ------------------------------------------------------------------ query histories (E2)
HG = ["00/1", "01/1", "002/110", "00/2"]  # C-C ; C-C+ ; C-C(-O)... ; C=C  (labels index VATTR)
ENG = [(("element", "charge"), True), (("element",), True), ((), True), (("element", "charge"), False)]


NG = 7  # 4 base graphs + 3 graphs derived from them (copy / relabel / subgraph) and then edited


def hist_ops(reduced, last=False):
    ops = []
    rng = range(NG) if last else range(4)
    for e, (attrs, wl) in enumerate(ENG):
        if reduced and not wl:
            continue
        for i in rng:
            for j in rng:
                ops.append((e, "iso", i, j))
                if not reduced:
                    ops.append((e, "map", i, j))
    return ops


def gen_hist(tier, seed):
    first = hist_ops(False)
    lastops = hist_ops(False, last=True)
    for a in first:
        for b in lastops:
            # quick: second query involves a derived graph or the same graphs as the first
            if tier == "quick" and max(b[2], b[3]) < 4 and not ({a[2], a[3]} & {b[2], b[3]}):
                continue
            yield [list(a), list(b)]
    if tier != "quick":
        ops3 = hist_ops(True)
        last3 = hist_ops(True, last=True)
        for a in ops3:
            for b in ops3:
                for c in last3:
                    if max(c[2], c[3]) < 4 and not ({a[2], a[3], b[2], b[3]} & {c[2], c[3]}):
                        continue
                    yield [list(a), list(b), list(c)]


def derive(graphs):
    """New graph objects obtained from already existing (possibly already queried) ones and then edited."""
    import networkx as nx

    d0 = graphs[0].copy()  # C-C -> C-C+  (content of graph 1)
    d0.nodes[min(d0.nodes)]["charge"] = 1
    d1 = nx.relabel_nodes(graphs[3], {v: v + 100 for v in graphs[3].nodes}, copy=True)  # C=C -> C-C (content of graph 0)
    for u, v in d1.edges:
        d1[u][v]["order"] = 1.0
    keep = sorted(graphs[2].nodes)[:2]
    d2 = graphs[2].subgraph(keep).copy()  # two atoms of graph 2, then one becomes O
    d2.nodes[keep[0]]["element"] = "O"
    return graphs + [d0, d1, d2]


def run_op(engines, graphs, op):
    e, kind, i, j = op
    if kind == "iso":
        return engines[e].isomorphic(graphs[i], graphs[j])
    return sorted(tuple(sorted(dict(m).items())) for m in engines[e].get_mappings(graphs[i], graphs[j]))


def check_hist(case):
    from synkit.Graph.Matcher.graph_matcher import GraphMatcherEngine

    def fresh():
        GraphMatcherEngine._wl_cache.clear()
        graphs = [build(s, "v", 10 * k) for k, s in enumerate(HG)]
        engines = [GraphMatcherEngine(node_attrs=list(a), edge_attrs=["order"], wl1_filter=wl, max_mappings=None) for a, wl in ENG]
        return engines, graphs

    engines, graphs = fresh()
    for op in case[:-1]:
        run_op(engines, graphs, tuple(op))
    graphs = derive(graphs)  # derived objects are created after the earlier queries
    answer = run_op(engines, graphs, tuple(case[-1]))
    fails = []
    # the last answer must not depend on the earlier queries: same call first, on a fresh cache and fresh objects
    e2, g2 = fresh()
    g2 = derive(g2)
    alone = run_op(e2, g2, tuple(case[-1]))
    if answer != alone:
        fails.append(Fail("history_dependent", f"after {case[:-1]}: {answer}", f"asked first: {alone}"))
    # and it must equal the definition
    e, kind, i, j = case[-1]
    attrs = ENG[e][0]
    nok = lambda p, h: all(p.get(k) == h.get(k) for k in attrs)
    if kind == "iso":
        want = rm.isomorphic(g2[i], g2[j], nok, edge_ok)
        if alone != want:
            fails.append(Fail("fresh_answer_wrong", f"{case[-1]}: {alone}", str(want), key_extra=str(case[-1])))
    else:
        want = sorted(tuple(sorted(m.items())) for m in rm.morphisms(g2[j], g2[i], nok, edge_ok, induced=True))
        if bool(alone) != bool(want) or not set(alone) <= set(want):
            fails.append(Fail("fresh_answer_wrong", f"{case[-1]}: {alone}", f"subset of {want}, non-empty iff it is", key_extra=str(case[-1])))
    return Outcome(nontrivial=bool(alone), outcome=f"{kind}:{bool(alone)}", fails=fails, transitions=len(case) + 1)


# ------------------------------------------------------------------ a long-lived engine and short-lived graphs (E3, id() answers)
def gen_lifetime(tier, seed):
    k = len(HG)
    pairs = [(i, j) for i in range(k) for j in range(k)]
    for p in pairs:
        for q in pairs:
            if tier != "quick" or p != q:
                yield {"pairs": [list(p), list(q)]}


def check_lifetime(case):
    """one engine object answers for pairs of graphs that are built, queried and dropped; a new graph may be given the id()
    of any graph that has died (what CPython permits); every answer must be the definition's"""
    from synkit.Graph.Matcher import graph_matcher as gmod
    from mc.seams import ObjectIdSeam, explore
    from mc.checks.c14 import freeze_heap

    freeze_heap()
    want = []
    for i, j in case["pairs"]:
        a, b = build(HG[i], "v", 0), build(HG[j], "v", 10)
        want.append((rm.isomorphic(b, a, node_eq, edge_ok), len(list(rm.morphisms(b, a, node_eq, edge_ok, induced=True))) > 0))

    def run(ch):
        seam = ObjectIdSeam(ch)
        gmod.id = seam
        try:
            out = []
            for wl in (False, True):
                eng = gmod.GraphMatcherEngine(node_attrs=["element", "charge"], edge_attrs=["order"], wl1_filter=wl)
                for i, j in case["pairs"]:
                    a, b = build(HG[i], "v", 0), build(HG[j], "v", 10)
                    out.append((bool(eng.isomorphic(a, b)), bool(eng.get_mappings(a, b))))
                    del a, b
            return out, seam.aliased
        finally:
            try:
                del gmod.id
            except AttributeError:
                pass

    results, complete = explore(run, 2, max_exec=400)
    fails = []
    for choices, (out, aliased) in results:
        if out != want + want:
            fails.append(Fail("engine_lifetime", f"id choices {choices}: answers {out}", f"{want + want} (each pair judged on its own)"))
            break
    if not complete:
        fails.append(Fail("e3_cap", "execution cap hit", "complete exploration"))
    return Outcome(nontrivial=any(w[0] for w in want) and not all(w[0] for w in want), outcome=f"execs{min(len(results), 9)}", fails=fails, transitions=len(results))


def subchecks(tier, seed):
    return [
        Sub("pairs", gen_pairs, check, key=lambda c: f"{c[0]}~{c[1]}", rule=RULE[tier]),
        Sub("hcount_pairs", gen_h, check, key=lambda c: f"{c[0]}~{c[1]}", rule=RULE[tier]),
        Sub("histories", gen_hist, check_hist, key=lambda c: str(c), rule=RULE[tier]),
        Sub("engine_lifetime", gen_lifetime, check_lifetime, key=lambda c: str(c["pairs"]), rule="one long-lived engine (pre-filter on / off), every sequence of two ordered pairs of the 4 colliding graphs, each pair built, queried (isomorphic, get_mappings) and dropped; "
            "id() answered by a seam that may give a new graph the id of any dead one (<= 2 reuses); every answer compared with the definition"),
    ]


def run(tier, seed):
    acc = run_subs(subchecks(tier, seed), tier, seed)
    return acc, True, {}
