"""C14 — batching, parallelism and caching are operational only (E2 + E3)."""
from __future__ import annotations

import itertools

from mc import enum_rxn as er
from mc.core import Fail, Outcome, Sub, run_subs
from mc.seams import Chooser, ObjectIdSeam, VirtualParallel, explore

PROPERTY = "C14"
ASSUMPTIONS = [
    "W1/W2 run the real BatchReactor / _RuleApplier / _apply_bulk / _dedupe / worker closure, with the rule engine (_apply_rule_raw, a module-level name) replaced by a fast pure function of the *content* of "
    "substrate graph, rule and direction, so that an answer served for the wrong substrate or rule is visible; W1r repeats a sample with the real engine",
    "identity seam: a live object keeps its id; a new object may receive the id of any object that was passed to id() before and has been garbage-collected since (what CPython permits); <=2 such reuses per execution",
    "pool seam: joblib semantics as documented - contiguous batches, each run on a pickled copy, results in submission order; every cut of the task list is explored; the real loky pool is run for conformance",
    "timeouts, worker crashes and memory pressure are not explored",
]
RULE = {
    "quick": "W1: all batches of length <=3 over 4 colliding substrates x 2 rules x cache {off, size 1, 2, 32768} x direction x id reuse <=2, second fit() on the same reactor with other rule objects; "
    "W2: all cuts of batches of 4 entries (entry_n_jobs>1) and of 3 rules (parallel_rules); W1r: real engine on 12 batches; W3: SynCRN.build(parallel=True) through an in-process ordered executor vs serial for every subset of >=4 of 6 seeds x rule lists x repeats x frontier x max_workers; W4: batched vs one-shot clustering (6 pools x all orders x batch sizes); "
    "W5: validators and balance check under every cut of 5 rows vs per-row calls, the same records checked on one column, another and the first again (serial and batched); W6: real loky pool and real ProcessPoolExecutor vs serial; non-trivial = cache hit or batch cut occurred",
    "thorough": "batches of length <=3 with id reuse <=3, all cuts of 5 entries, W3 over every subset of >=3 seeds x 5 rule lists",
}

# two reactive, the first one again in another spelling (exact repeats arise from sequences with repetition), one look-alike
SUBSTRATES = ["CC(=O)O.CO", "CCC(=O)O.CCO", "OC.OC(C)=O", "CC(=O)N.CO"]
RULES_RSMI = [
    "[CH3:1][C:2](=[O:3])[OH:4].[CH3:5][OH:6]>>[CH3:1][C:2](=[O:3])[O:6][CH3:5].[OH2:4]",
    "[CH3:5][OH:6].[CH3:1][C:2](=[O:3])[OH:4]>>[CH3:1][C:2]([OH:3])([OH:4])[O:6][CH3:5]",
]


def graph_sig(g):
    # content *as written*: node ids included, so that two spellings of one molecule have different signatures
    nodes = sorted((v, d.get("element"), d.get("charge"), d.get("hcount")) for v, d in g.nodes(data=True))
    edges = sorted((min(u, v), max(u, v), str(d.get("order"))) for u, v, d in g.edges(data=True))
    import hashlib

    return hashlib.sha1(repr((nodes, edges)).encode()).hexdigest()[:8]


def stub_engine(substrate, rule, invert, engine, *, strategy, explicit_h, implicit_temp):
    s = graph_sig(substrate)
    r = rule.graph.get("name", graph_sig(rule))
    return [f"{s}|{r}|{invert}|a", f"{s}|common|{invert}", f"{s}|{r}|{invert}|b"]


def make_rules(tag=""):
    from synkit.IO.chem_converter import rsmi_to_its

    out = []
    for i, r in enumerate(RULES_RSMI):
        g = rsmi_to_its(r, core=True)
        g.graph["name"] = f"R{i}{tag}"
        out.append(g)
    return out


def dedupe(xs):
    seen, out = set(), []
    for x in xs:
        if x not in seen:
            seen.add(x)
            out.append(x)
    return out


def expected_stub(entries, rules, invert):
    from synkit.IO.chem_converter import smiles_to_graph

    res = []
    for e in entries:
        g = smiles_to_graph(e, drop_non_aam=False, use_index_as_atom_map=False)
        flat = [x for r in rules for x in stub_engine(g, r, invert, "syn", strategy="bt", explicit_h=True, implicit_temp=False)]
        res.append(dedupe(flat))
    return res


def gen_w1(tier, seed):
    L = 3  # the thorough tier deepens the id-reuse bound (3 instead of 2), not the batch length: 4-entry batches x bound 3 cost hours
    for n in range(1, L + 1):
        for seq in itertools.product(range(len(SUBSTRATES)), repeat=n):
            for cache in (None, 1, 2, 32768):
                for inv in (False, True):
                    yield {"seq": list(seq), "cache": cache, "invert": inv}


BOUND = [2]
_FROZEN = [False]


def freeze_heap():
    """move everything allocated so far out of the collector's sight: full collections then cost microseconds"""
    import gc

    if not _FROZEN[0]:
        gc.collect()
        gc.freeze()
        _FROZEN[0] = True


def check_w1(case):
    from synkit.Synthesis.Reactor import batch_reactor as br

    entries = [SUBSTRATES[i] for i in case["seq"]]
    inv = case["invert"]
    make_rules()
    freeze_heap()

    def run(ch):
        seam = ObjectIdSeam(ch)
        orig_engine = br._apply_rule_raw
        br._apply_rule_raw = stub_engine
        br.id = seam
        try:
            reactor = br.BatchReactor(entries, cache_enabled=case["cache"] is not None, cache_maxsize=case["cache"] or 32768, enable_logging=False)
            rules1 = make_rules()
            rules1 = rules1 + rules1[:1]  # the same rule object may occur twice (concatenated rule libraries)
            out1 = [r[f"syn_{'bw' if inv else 'fw'}"] for r in reactor.fit(rules1, invert=inv)]
            exp1 = expected_stub(entries, rules1, inv)
            del rules1  # the rule objects of the first call may die before the second call
            rules2 = make_rules("x")[::-1]
            out2 = [r[f"syn_{'bw' if inv else 'fw'}"] for r in reactor.fit(rules2, invert=inv)]
            exp2 = expected_stub(entries, rules2, inv)
            return (out1 == exp1, out2 == exp2, seam.aliased, out1, exp1, out2, exp2)
        finally:
            br._apply_rule_raw = orig_engine
            try:
                del br.id
            except AttributeError:
                pass

    results, complete = explore(run, BOUND[0], max_exec=3000)
    fails = []
    aliased = 0
    for choices, res in results:
        aliased = max(aliased, res[2])
        if not res[0] or not res[1]:
            which = "first fit" if not res[0] else "second fit (other rule objects)"
            got, exp = (res[3], res[4]) if not res[0] else (res[5], res[6])
            bad = next(i for i, (a, b) in enumerate(zip(got, exp)) if a != b) if len(got) == len(exp) else -1
            fails.append(Fail("batch_result_differs", f"{which}, id choices {choices}: entry {bad} -> {got[bad] if bad >= 0 else got}", f"{exp[bad] if bad >= 0 else exp} (what the entry gives alone)"))
            break
    if not complete:
        fails.append(Fail("e3_cap", "execution cap hit", "complete exploration"))
    return Outcome(nontrivial=len(results) > 1, outcome=f"execs{min(len(results), 99)//10}x", fails=fails, transitions=len(results))


# ------------------------------------------------------------------ W2: batch cuts
def gen_w2(tier, seed):
    n = 4 if tier == "quick" else 5
    for seq in itertools.product(range(len(SUBSTRATES)), repeat=n):
        if len(set(seq)) < 3 and tier == "quick":
            continue
        for cache in (None, 1, 32768):
            yield {"seq": list(seq), "cache": cache, "mode": "entries"}
    for seq in itertools.product(range(len(SUBSTRATES)), repeat=2):
        for cache in (None, 1, 32768):
            yield {"seq": list(seq), "cache": cache, "mode": "rules"}


def check_w2(case):
    from synkit.Synthesis.Reactor import batch_reactor as br

    entries = [SUBSTRATES[i] for i in case["seq"]]

    def run(ch):
        VirtualParallel.chooser = ch
        VirtualParallel.log = []
        orig_engine, orig_par = br._apply_rule_raw, br.Parallel
        br._apply_rule_raw = stub_engine
        br.Parallel = VirtualParallel
        try:
            kw = dict(entry_n_jobs=4) if case["mode"] == "entries" else dict(rule_n_jobs=3, parallel_rules=True)
            reactor = br.BatchReactor(entries, cache_enabled=case["cache"] is not None, cache_maxsize=case["cache"] or 32768, enable_logging=False, **kw)
            rules = make_rules() + make_rules("y")[:1]
            out = [r["syn_fw"] for r in reactor.fit(rules)]
            exp = expected_stub(entries, rules, False)
            return (out == exp, list(VirtualParallel.log), out, exp)
        finally:
            br._apply_rule_raw, br.Parallel = orig_engine, orig_par
            VirtualParallel.chooser = None

    results, complete = explore(run, 8, max_exec=3000)
    fails = []
    for choices, res in results:
        if not res[0]:
            fails.append(Fail("batch_cut_changes_result", f"cut {res[1]}: {res[2]}", f"{res[3]}"))
            break
    if not complete:
        fails.append(Fail("e3_cap", "execution cap hit", "complete exploration"))
    return Outcome(nontrivial=len(results) > 1, outcome=f"cuts{len(results)}", fails=fails, transitions=len(results))


# ------------------------------------------------------------------ W1r: real engine
def gen_w1r(tier, seed):
    for seq in [(0, 1), (1, 0), (0, 2), (0, 3), (3, 0), (0, 1, 2), (2, 1, 0), (0, 3, 1), (1, 1), (3, 3, 0), (0, 0, 1), (2, 3)]:
        for cache in (None, 1, 32768):
            yield {"seq": list(seq), "cache": cache}


def check_w1r(case):
    from synkit.Synthesis.Reactor import batch_reactor as br
    from synkit.Synthesis.Reactor.syn_reactor import SynReactor

    entries = [SUBSTRATES[i] for i in case["seq"]]
    fails = []
    nex = 0
    freeze_heap()
    for inv in (False, True):
        subs = entries if not inv else [["CC(=O)OC.O", "CCC(=O)OCC.O", "O.COC(C)=O", "CC(=O)NC.O"][i] for i in case["seq"]]

        def run(ch):
            seam = ObjectIdSeam(ch)
            br.id = seam
            try:
                rules = make_rules()
                reactor = br.BatchReactor(subs, cache_enabled=case["cache"] is not None, cache_maxsize=case["cache"] or 32768, enable_logging=False, explicit_h=False, implicit_temp=True)
                out = [r[f"syn_{'bw' if inv else 'fw'}"] for r in reactor.fit(rules, invert=inv)]
                exp = []
                for e in subs:
                    flat = [x for r in rules for x in SynReactor(e, r, invert=inv, strategy="bt", explicit_h=False, implicit_temp=True).smarts_list]
                    exp.append(dedupe(flat))
                return ([sorted(map(str, o)) for o in out] == [sorted(map(str, o)) for o in exp], out, exp)
            finally:
                try:
                    del br.id
                except AttributeError:
                    pass

        results, complete = explore(run, 1, max_exec=200)
        nex += len(results)
        for choices, res in results:
            if not res[0]:
                fails.append(Fail("real_engine_batch_differs", f"invert={inv} id choices {choices}: {res[1]}", f"{res[2]}", key_extra=str(inv)))
                break
        if results and not any(results[0][1][2]):
            fails.append(Fail("harness_vacuous", f"invert={inv}: the rules give no reaction on any entry of {subs}", "at least one entry with results"))
    return Outcome(nontrivial=True, outcome="real", fails=fails, transitions=nex)


# ------------------------------------------------------------------ W1f: real engine with the rule pre-filter switched on
W1F_SUBS = SUBSTRATES + ["C=C.Br", "C=CC.Br", "CC=O"]
W1F_RULES = RULES_RSMI + ["[CH2:1]=[CH2:2].[BrH:3]>>[CH3:1][CH2:2][Br:3]", "[CH3:1][CH:2]=[O:3]>>[CH2:1]=[CH:2][OH:3]"]


def gen_w1f(tier, seed):
    for seq in [(3, 0), (0, 3), (3, 1, 0), (4, 0), (0, 4), (4, 1, 5), (6, 4, 0), (5, 0, 6, 4), (2, 3, 1, 0)]:
        for engine in ("nx", "turbo", "sing"):
            yield {"seq": list(seq), "engine": engine}


def check_w1f(case):
    """batches in which a later substrate admits a rule the first one does not, with every rule pre-filter engine: each entry's result is what the entry gives alone with the same settings"""
    from synkit.Synthesis.Reactor import batch_reactor as br

    subs = [W1F_SUBS[i] for i in case["seq"]]
    fails = []
    try:
        batch = [sorted(map(str, r["syn_fw"])) for r in br.BatchReactor(subs, pre_filter_engine=case["engine"], enable_logging=False, explicit_h=False, implicit_temp=True).fit(list(W1F_RULES))]
        alone = [sorted(map(str, br.BatchReactor([e], pre_filter_engine=case["engine"], enable_logging=False, explicit_h=False, implicit_temp=True).fit(list(W1F_RULES))[0]["syn_fw"])) for e in subs]
        plain = [sorted(map(str, br.BatchReactor([e], enable_logging=False, explicit_h=False, implicit_temp=True).fit(list(W1F_RULES))[0]["syn_fw"])) for e in subs]
    except Exception as e:
        return Outcome(nontrivial=True, outcome="w1f", fails=[Fail("pre_filter_exception", f"{type(e).__name__}: {e}", "results")], transitions=1)
    if not any(plain):
        fails.append(Fail("harness_vacuous", f"no entry of {subs} gives a reaction", "at least one"))
    if batch != alone:
        bad = next(i for i, (a, b) in enumerate(zip(batch, alone)) if a != b)
        fails.append(Fail("pre_filter_batch_differs", f"engine={case['engine']}: entry {bad} ({subs[bad]}) -> {batch[bad]}", f"{alone[bad]} (alone)", key_extra=case["engine"]))
    return Outcome(nontrivial=any(plain), outcome=f"w1f{int(alone == plain)}", fails=fails, transitions=3)


# ------------------------------------------------------------------ W5: validators / balance check under every cut
def rows():
    rx = [s for rid, s in er.corpus_reactions() if rid.startswith("graph")][:5]
    return rx


def gen_w5(tier, seed):
    yield {"what": "balance"}
    yield {"what": "validator_RC"}
    yield {"what": "validator_ITS"}


def check_w5(case):
    from synkit.Chem.Reaction import balance_check as bc
    from synkit.Chem.Reaction import aam_validator as av
    from mc.checks.c09 import swap_product_maps
    from mc.checks.c01 import centre_maps

    rx = rows()
    fails = []
    if case["what"] == "balance":
        data = [{"reactions": s, "k": i} for i, s in enumerate(rx)] + [{"reactions": rx[0] + ".O", "k": 99}]
        want = [bc.BalanceReactionCheck.rsmi_balance_check(d["reactions"]) for d in data]

        # the same records checked twice, on two columns with different verdicts, serially (in-process, the caller's own dicts) and in cut batches
        for d in data:
            d["other"] = d["reactions"] + ".[Na+]" if d["k"] % 2 == 0 else d["reactions"]
        want2 = [bc.BalanceReactionCheck.rsmi_balance_check(d["other"]) for d in data]

        def history(jobs):
            recs = [dict(d) for d in data]
            ok = True
            for col, w in (("reactions", want), ("other", want2), ("reactions", want)):
                b, u = bc.BalanceReactionCheck(n_jobs=jobs).dicts_balance_check(recs, rsmi_column=col)
                got = {d["k"]: d["balanced"] for d in b + u}
                ok = ok and [got[d["k"]] for d in data] == w and [d["k"] for d in b] == [d["k"] for d, x in zip(data, w) if x]
            return ok

        orig0 = bc.Parallel
        bc.Parallel = VirtualParallel
        VirtualParallel.chooser = None
        try:
            for jobs in (1, 4):
                if not history(jobs):
                    fails.append(Fail("balance_check_history", f"n_jobs={jobs}: the same records checked on column 'reactions', then 'other', then 'reactions' again", "per-row verdicts of the column asked for", key_extra=str(jobs)))
        finally:
            bc.Parallel = orig0

        def run(ch):
            VirtualParallel.chooser = ch
            orig = bc.Parallel
            bc.Parallel = VirtualParallel
            try:
                b, u = bc.BalanceReactionCheck(n_jobs=4).dicts_balance_check([dict(d) for d in data])
                got = {d["k"]: d["balanced"] for d in b + u}
                return [got[d["k"]] for d in data] == want and [d["k"] for d in b] == [d["k"] for d, w in zip(data, want) if w]
            finally:
                bc.Parallel = orig
                VirtualParallel.chooser = None
    else:
        method = case["what"].split("_")[1]
        data = []
        for i, s in enumerate(rx):
            cm = centre_maps(s)
            bad = swap_product_maps(s, cm[0], cm[-1]) if len(cm) > 1 else s
            data.append({"ground_truth": s, "m1": s, "m2": bad})
        want = {c: [av.AAMValidator.smiles_check(d[c], d["ground_truth"], method) for d in data] for c in ("m1", "m2")}

        def run(ch):
            VirtualParallel.chooser = ch
            orig = av.Parallel
            av.Parallel = VirtualParallel
            try:
                res = av.AAMValidator.validate_smiles([dict(d) for d in data], mapped_cols=["m1", "m2"], check_method=method, n_jobs=4)
                return all(r["results"] == want[r["mapper"]] for r in res)
            finally:
                av.Parallel = orig
                VirtualParallel.chooser = None

    results, complete = explore(run, 8, max_exec=2000)
    for choices, ok in results:
        if not ok:
            fails.append(Fail("parallel_differs_from_serial", f"{case['what']}: batch cut choices {choices}", "per-row results"))
            break
    return Outcome(nontrivial=len(results) > 1, outcome=f"cuts{len(results)}", fails=fails, transitions=len(results))


# ------------------------------------------------------------------ W5b: validator answers do not depend on earlier calls with other settings
def gen_w5b(tier, seed):
    settings = [["RC", False], ["RC", True], ["ITS", False], ["ITS", True]]
    import itertools

    orders = list(itertools.permutations(settings)) if tier != "quick" else [settings[k:] + settings[:k] for k in range(4)] + [settings[::-1]]
    yield {"orders": [list(map(list, o)) for o in orders]}


def check_w5b(case):
    import json
    import os
    import subprocess
    import sys
    from mc.core import VERIF

    answers = []
    for order in case["orders"]:
        r = subprocess.run([sys.executable, "-m", "mc.flag_history", json.dumps(order)], cwd=VERIF, capture_output=True, text=True, env=dict(os.environ, PYTHONHASHSEED="0"))
        line = [l for l in r.stdout.splitlines() if l.startswith("RESULT ")]
        if not line:
            return Outcome(fails=[Fail("flag_history_helper_failed", r.stderr[-300:], "answers")])
        answers.append(json.loads(line[0][7:]))
    fails = []
    ref = answers[0]
    for order, a in zip(case["orders"][1:], answers[1:]):
        for k in ref:
            if a[k] != ref[k]:
                fails.append(Fail("validator_answer_depends_on_earlier_calls", f"setting {k}: {a[k]} when asked in order {order}", f"{ref[k]} (asked in order {case['orders'][0]})", key_extra=k))
    sens = any(ref["RC,False"][i] != ref["RC,True"][i] for i in range(len(ref["RC,False"])))
    if not sens:
        fails.append(Fail("harness_vacuous", "no pair is sensitive to ignore_aromaticity", "at least one"))
    return Outcome(nontrivial=sens, outcome="flag_history", fails=fails[:3], transitions=len(answers) * 4)


# ------------------------------------------------------------------ W4: batched clustering (shares C13's pools)
def gen_w4(tier, seed):
    from mc.checks import c13

    nwin = len(c13.corpus()) - 2
    for w in (0, 17, 33, 51, 70, nwin + 1):
        yield w


def check_w4(w):
    from mc.checks import c13

    out = c13.check(w)
    out.fails = [f for f in out.fails if f.tag in ("batch_fit", "templates", "graph_cluster_fit")]
    return out


# ------------------------------------------------------------------ W3: network expansion, pool replaced by an in-process stand-in
W3_RULES = [
    "[C:1][O:2][H:5].[Cl:3][H:4]>>[C:1][Cl:3].[H:4][O:2][H:5]",
    "[C:1][Cl:2].[N:3][H:4]>>[C:1][N:3].[Cl:2][H:4]",
    "[CH3:1][C:2](=[O:3])[O:4][H:7].[C:5][O:6][H:8]>>[CH3:1][C:2](=[O:3])[O:6][C:5].[H:7][O:4][H:8]",
    # a second rule that fires on the same (acid, alcohol) mixtures as the previous one
    "[C:5][O:6][H:8].[CH3:1][C:2](=[O:3])[O:4][H:7]>>[CH3:1][C:2]([O:3][H:8])([O:4][H:7])[O:6][C:5]",
]
W3_SEEDS = ["CO", "CCO", "CC(C)O", "Cl", "N", "CC(=O)O"]


def gen_w3(tier, seed):
    n = len(W3_SEEDS)
    for mask in range(1, 2 ** n):
        seeds = [W3_SEEDS[i] for i in range(n) if mask >> i & 1]
        if len(seeds) < (4 if tier == "quick" else 3):
            continue
        for rules in ([0, 1], [0, 1, 2], [2, 3]) if tier == "quick" else ([0, 1], [1, 0], [0, 1, 2], [2, 3], [3, 2]):
            yield {"seeds": seeds, "rules": rules}


def check_w3(case):
    from synkit.CRN.DAG import syncrn as sc
    from mc.seams import VirtualExecutor

    rules = [W3_RULES[i] for i in case["rules"]]
    fails = []
    n = 0
    ntasks = 0

    def snap(G):
        return (sorted((k, sorted((a, str(b)) for a, b in d.items())) for k, d in G.nodes(data=True)), sorted((u, v, sorted((a, str(b)) for a, b in d.items())) for u, v, d in G.edges(data=True)))

    orig = sc.ProcessPoolExecutor
    try:
        for repeats in (2, 3):
            for frontier in (True, False):
                crn = sc.SynCRN(rules=rules, repeats=repeats, use_frontier=frontier)
                ser = snap(crn.build(case["seeds"], parallel=False))
                ntasks = max(ntasks, len(crn._seen_attempts))
                for mw in (1, 2, 3, None):
                    sc.ProcessPoolExecutor = VirtualExecutor
                    try:
                        par = snap(sc.SynCRN(rules=rules, repeats=repeats, use_frontier=frontier).build(case["seeds"], parallel=True, max_workers=mw))
                    finally:
                        sc.ProcessPoolExecutor = orig
                    n += 1
                    if par != ser:
                        fails.append(Fail("parallel_network_differs", f"repeats={repeats} use_frontier={frontier} max_workers={mw}: {len(par[0])} nodes / {len(par[1])} edges vs {len(ser[0])} / {len(ser[1])}",
                                          "same network as the serial build", key_extra=f"{repeats},{frontier},{mw}"))
    finally:
        sc.ProcessPoolExecutor = orig
    return Outcome(nontrivial=ntasks > 16, outcome=f"tasks{min(ntasks // 16, 9)}", fails=fails, transitions=n)


# ------------------------------------------------------------------ W6/W3: real pools (conformance, free-running)
def gen_w6(tier, seed):
    yield {"what": "loky_entries"}
    yield {"what": "loky_rules"}
    yield {"what": "syncrn_pool"}
    yield {"what": "validators_loky"}


def check_w6(case):
    fails = []
    n = 0
    if case["what"].startswith("loky"):
        from synkit.Synthesis.Reactor import batch_reactor as br

        entries = [SUBSTRATES[i] for i in (0, 1, 2, 3, 1)]
        rules = RULES_RSMI
        ref = br.BatchReactor(entries, enable_logging=False, explicit_h=False, implicit_temp=True).fit(rules)
        if not any(r["syn_fw"] for r in ref):
            fails.append(Fail("harness_vacuous", "the serial batch gives no reaction", "at least one entry with results"))
        for jobs in (2, 4):
            kw = dict(entry_n_jobs=jobs) if case["what"] == "loky_entries" else dict(rule_n_jobs=jobs, parallel_rules=True)
            got = br.BatchReactor(entries, enable_logging=False, explicit_h=False, implicit_temp=True, **kw).fit(rules)
            n += 1
            if [sorted(r["syn_fw"]) for r in got] != [sorted(r["syn_fw"]) for r in ref]:
                fails.append(Fail("real_pool_differs", f"{case['what']} jobs={jobs}", "same as serial", key_extra=str(jobs)))
    elif case["what"] == "syncrn_pool":
        from synkit.CRN.DAG.syncrn import build_syncrn_from_smarts

        rules = [RULES_RSMI[0], "[CH3:1][C:2](=[O:3])[O:6][CH3:5].[OH2:4]>>[CH3:1][C:2](=[O:3])[OH:4].[CH3:5][OH:6]"]
        seeds = ["CC(=O)O", "CO", "CCO"]

        def snap(G):
            return (sorted((k, sorted((a, str(b)) for a, b in d.items())) for k, d in G.nodes(data=True)), sorted((u, v, sorted((a, str(b)) for a, b in d.items())) for u, v, d in G.edges(data=True)))

        ser = build_syncrn_from_smarts(rules, seeds, repeats=2, parallel=False, implicit_temp=True)
        for mw in (2, 4):
            par = build_syncrn_from_smarts(rules, seeds, repeats=2, parallel=True, max_workers=mw, implicit_temp=True)
            n += 1
            if snap(par) != snap(ser):
                fails.append(Fail("parallel_network_differs", f"max_workers={mw}: {par.number_of_nodes()} nodes / {par.number_of_edges()} edges vs {ser.number_of_nodes()} / {ser.number_of_edges()}", "same network as the serial build", key_extra=str(mw)))
        if ser.number_of_nodes() < 4:
            fails.append(Fail("harness_vacuous", f"serial network has {ser.number_of_nodes()} nodes", "a non-trivial expansion"))
    else:
        from synkit.Chem.Reaction.balance_check import BalanceReactionCheck

        rx = rows()
        data = [{"reactions": s, "k": i} for i, s in enumerate(rx)]
        b1, u1 = BalanceReactionCheck(n_jobs=1).dicts_balance_check([dict(d) for d in data])
        b2, u2 = BalanceReactionCheck(n_jobs=4).dicts_balance_check([dict(d) for d in data])
        n += 1
        if ([d["k"] for d in b1], [d["k"] for d in u1]) != ([d["k"] for d in b2], [d["k"] for d in u2]):
            fails.append(Fail("real_pool_differs", "balance check n_jobs=4", "same as n_jobs=1"))
    return Outcome(nontrivial=True, outcome=case["what"], fails=fails, transitions=max(n, 1))


def subchecks(tier, seed):
    BOUND[0] = 2 if tier == "quick" else 3
    return [
        Sub("W1_cache_identity", gen_w1, check_w1, key=lambda c: f"{c['seq']}|cache={c['cache']}|inv={c['invert']}", rule=RULE[tier]),
        Sub("W2_batch_cuts", gen_w2, check_w2, key=lambda c: f"{c['mode']}|{c['seq']}|cache={c['cache']}", rule=RULE[tier]),
        Sub("W1r_real_engine", gen_w1r, check_w1r, key=lambda c: f"{c['seq']}|cache={c['cache']}", rule=RULE[tier]),
        Sub("W1f_rule_pre_filter", gen_w1f, check_w1f, key=lambda c: f"{c['seq']}|{c['engine']}", rule="9 batches over 7 substrates of different chemistry and 4 rules, in which a later substrate admits a rule the first does not x rule pre-filter engines nx / turbo / sing, real rule engine, serial: batch vs each entry alone"),
        Sub("W3_network_expansion", gen_w3, check_w3, key=lambda c: f"{'+'.join(c['seeds'])}|rules{c['rules']}", rule="every seed subset (quick: >=4, thorough: >=3 of 6 seeds) x rule lists (quick 3, thorough 5), repeats 2/3, frontier on/off: "
            "SynCRN.build(parallel=True, max_workers 1/2/3/default) with the process pool replaced by an in-process stand-in (pickled copies, ordered map) vs the serial build; non-trivial = more than 16 rule applications attempted"),
        Sub("W4_batched_clustering", gen_w4, check_w4, key=lambda c: f"pool{c}", rule=RULE[tier]),
        Sub("W5_validators", gen_w5, check_w5, key=lambda c: c["what"], rule=RULE[tier]),
        Sub("W5b_flag_history", gen_w5b, check_w5b, key=lambda c: "orders", rule="AAMValidator.smiles_check on 5 pairs under every rotation (thorough: permutation) of the 4 (method, ignore_aromaticity) settings, each order in a fresh interpreter; answers per setting must not depend on the order"),
        Sub("W6_real_pools", gen_w6, check_w6, key=lambda c: c["what"], rule=RULE[tier]),
    ]


def run(tier, seed):
    subs = subchecks(tier, seed)
    acc = run_subs(subs[:-1], tier, seed)
    # real process pools are started from the main process (pool workers are daemonic and may not have children)
    acc.merge(run_subs(subs[-1:], tier, seed, nproc=1))
    return acc, True, {}
