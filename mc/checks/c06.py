"""C06 — subgraph search returns exactly the label-preserving monomorphisms (E1)."""
from __future__ import annotations

import itertools

from mc import enum_graphs as eg
from mc import ref_match as rm
from mc.core import Fail, Outcome, Sub, run_subs

PROPERTY = "C06"
ASSUMPTIONS = [
    "alphabet: elements {C,O} x hcount {0,1}, charge 0; bond orders {1,2}; node_attrs (element,charge) [SynReactor's setting] and (element,hcount); edge_attrs (order)",
    "oracle: backtracking enumeration of all injective maps (ref_match), component rule evaluated on own connected components",
    "limits are read as weakly as the statement allows: max_results=k gives a duplicate-free subset of the unlimited answer of size <=k (for 'all': exactly its first k); "
    "a threshold t gives either the unlimited answer or [], the latter whenever the final list exceeds t and never when no enumeration the strategy performs exceeds t",
    "non-empty patterns only",
]
RULE = {
    "quick": "all labelled hosts n<=3 (1 780) x all labelled patterns n<=2 (52) x strategies all/comp/bt x strict_cc_count x max_results {None,1,2} x threshold "
    "{None,0,1,|M|-1,|M|,|M|+1} x pre_filter; plus host class representatives n=4 x pattern representatives n<=3 over 2 node labels x 2 bond orders (strategies all, comp, bt); disconnected graphs included; "
    "non-trivial = at least one monomorphism exists",
    "thorough": "hosts n<=3 x all labelled patterns n<=3; host representatives n=4 x pattern representatives n<=3 over the full alphabet; host representatives n=5 (elements only, single bonds) x pattern representatives n<=3",
}

VATTR = [
    {"element": "C", "charge": 0, "hcount": 0},
    {"element": "C", "charge": 0, "hcount": 1},
    {"element": "O", "charge": 0, "hcount": 0},
    {"element": "O", "charge": 0, "hcount": 1},
]
EATTR = [{"order": 1.0}, {"order": 2.0}]
VATTR2 = [{"element": "C", "charge": 0, "hcount": 0}, {"element": "O", "charge": 0, "hcount": 0}]


def gen_full(tier, seed):
    pats = [c for n in (1, 2) for c in eg.all_labelled(n, 4, 2)]
    if tier != "quick":
        pats += list(eg.all_labelled(3, 4, 2))
    for n in (1, 2, 3):
        for h in eg.all_labelled(n, 4, 2):
            hs = eg.code_str(h)
            for p in pats:
                yield [hs, eg.code_str(p), "full"]


def gen_reps(tier, seed):
    if tier == "quick":
        # 2 node labels (C with hcount 0 / 1), 2 bond orders
        preps = [c for n in (1, 2, 3) for c in eg.representatives(n, 2, 2)]
        for h in eg.representatives(4, 2, 2):
            hs = eg.code_str(h)
            for p in preps:
                yield [hs, eg.code_str(p), "reps"]
        return
    preps = [c for n in (1, 2, 3) for c in eg.representatives(n, 4, 2)]
    for h in eg.representatives(4, 4, 2):
        hs = eg.code_str(h)
        for p in preps:
            yield [hs, eg.code_str(p), "reps"]
    p5 = [c for n in (1, 2, 3) for c in eg.representatives(n, 2, 1)]
    for h in eg.representatives(5, 2, 1):
        for p in p5:
            yield [eg.code_str(h), eg.code_str(p), "reps5"]


def build(code_s, kind, ids=None):
    code = eg.parse_code(code_s)
    if kind == "reps5":
        return eg.to_nx(code, VATTR2, EATTR, node_ids=ids)
    return eg.to_nx(code, VATTR, EATTR, node_ids=ids)


def snapshot(G):
    return (tuple((n, tuple(sorted(d.items()))) for n, d in G.nodes(data=True)), tuple((u, v, tuple(sorted(d.items()))) for u, v, d in G.edges(data=True)))


def freeze(m):
    return tuple(sorted(m.items()))


def check(case):
    from synkit.Graph.Matcher.subgraph_matcher import SubgraphSearchEngine as SE

    hs, ps, kind = case
    n_h = len(hs.split("/")[0])
    n_p = len(ps.split("/")[0])
    host = build(hs, kind, ids=list(range(10, 10 + n_h)))  # host ids disjoint from pattern ids
    pat = build(ps, kind)
    fails = []
    ncalls = 0
    outcome_bits = []
    for cfg, node_attrs in (("ec", ["element", "charge"]), ("eh", ["element", "hcount"])):
        if cfg == "eh" and kind != "full":
            continue
        if cfg == "ec":
            node_ok = lambda p, h: p["element"] == h["element"] and p["charge"] == h["charge"] and h["hcount"] >= p["hcount"]
        else:
            node_ok = lambda p, h: p["element"] == h["element"] and h["hcount"] == p["hcount"]
        edge_ok = lambda p, h: p["order"] == h["order"]
        M = [freeze(m) for m in rm.morphisms(pat, host, node_ok, edge_ok)]
        Mset = set(M)
        hcomp = rm.components(host)
        pcomp = rm.components(pat)
        hc_of = {v: i for i, c in enumerate(hcomp) for v in c}
        pc_of = {v: i for i, c in enumerate(pcomp) for v in c}

        def comp_ok(m):
            img = {}
            for p, h in m:
                img.setdefault(pc_of[p], set()).add(hc_of[h])
            used = [next(iter(s)) for s in img.values()]
            return all(len(s) == 1 for s in img.values()) and len(set(used)) == len(used)

        if len(hcomp) < len(pcomp):
            Mcomp_loose = set(Mset)
        else:
            Mcomp_loose = {m for m in Mset if comp_ok(m)}
        Mcomp_strict = set() if (len(hcomp) > len(pcomp)) else Mcomp_loose
        want = {
            ("all", True): Mset,
            ("all", False): Mset,
            ("comp", True): Mcomp_strict,
            ("comp", False): Mcomp_loose,
            ("bt", True): Mcomp_strict or Mset,
            ("bt", False): Mcomp_loose or Mset,
        }
        h0, p0 = snapshot(host), snapshot(pat)
        unlimited = {}
        for strat in ("all", "comp", "bt"):
            for strict in (True, False):
                if strat == "all" and not strict:
                    continue
                res = SE.find_subgraph_mappings(host, pat, node_attrs=node_attrs, edge_attrs=["order"], strategy=strat, strict_cc_count=strict)
                ncalls += 1
                got = [freeze(m) for m in res]
                unlimited[(strat, strict)] = got
                key = f"{cfg},{strat},strict={strict}"
                if len(set(got)) != len(got):
                    fails.append(Fail("duplicates", f"{key}: {got}", "no duplicates", key_extra=key))
                if set(got) != want[(strat, strict)]:
                    fails.append(Fail("result_set", f"{key}: {sorted(set(got))}", f"{sorted(want[(strat, strict)])}", key_extra=key))
        if snapshot(host) != h0 or snapshot(pat) != p0:
            fails.append(Fail("inputs_modified", "host or pattern changed", "unchanged", key_extra=cfg))
        if fails or kind != "full" or n_p > 2:
            # limit settings are explored for patterns with <= 2 atoms (both tiers); larger patterns: unlimited answers only
            outcome_bits.append(str(min(len(M), 9)))
            continue
        # ---- limits (only judged when the unlimited answers are right)
        for strat in ("all", "comp", "bt"):
            base = unlimited[(strat, True)]
            bset = set(base)
            for k in (1, 2):
                res = [freeze(m) for m in SE.find_subgraph_mappings(host, pat, node_attrs=node_attrs, edge_attrs=["order"], strategy=strat, max_results=k)]
                ncalls += 1
                key = f"{cfg},{strat},max_results={k}"
                ok = len(res) <= k and len(set(res)) == len(res) and set(res) <= (bset if strat != "bt" else (bset | Mset))
                if strat == "all":
                    ok = ok and res == base[: min(k, len(base))]
                if base and strat == "all" and not res:
                    ok = False
                if not ok:
                    fails.append(Fail("max_results", f"{key}: {res}", f"first {k} of {base}" if strat == "all" else f"<= {k} of {sorted(bset)}", key_extra=key))
            nM = len(base)
            # largest enumeration any stage of the strategy may perform (the guard may fire at any of them)
            comp_stage = 0
            if strat in ("comp", "bt"):
                if len(hcomp) < len(pcomp):
                    comp_stage = len(M)
                elif len(hcomp) == len(pcomp) or True:
                    for pc in pcomp:
                        cnt = 0
                        for hc in hcomp:
                            if len(hc) >= len(pc):
                                cnt += sum(1 for _ in rm.morphisms(pat.subgraph(pc), host.subgraph(hc), node_ok, edge_ok))
                        comp_stage = max(comp_stage, cnt)
                    comp_stage = max(comp_stage, len(want[("comp", True)]))
            stage_max = max(comp_stage, nM, len(M) if strat != "comp" else 0)
            for t in sorted({0, 1, nM - 1, nM, nM + 1} - {-1}):
                res = [freeze(m) for m in SE.find_subgraph_mappings(host, pat, node_attrs=node_attrs, edge_attrs=["order"], strategy=strat, threshold=t)]
                ncalls += 1
                key = f"{cfg},{strat},threshold={t}"
                allowed = [bset]
                if strat == "bt" and comp_stage > t:
                    allowed.append(Mset)  # component stage emptied by the guard => documented fallback to the exhaustive set
                if res != [] and (set(res) not in allowed or len(set(res)) != len(res)):
                    fails.append(Fail("threshold_partial", f"{key}: {res}", f"[] or {sorted(bset)}", key_extra=key))
                elif len(res) > t:
                    fails.append(Fail("threshold_not_applied", f"{key}: {len(res)} results", "[] (more results than the threshold)", key_extra=key))
                elif stage_max <= t and set(res) != bset:
                    fails.append(Fail("threshold_overapplied", f"{key}: {res}", f"{sorted(bset)} (no enumeration exceeds the threshold)", key_extra=key))
            res = [freeze(m) for m in SE.find_subgraph_mappings(host, pat, node_attrs=node_attrs, edge_attrs=["order"], strategy=strat, pre_filter=True)]
            ncalls += 1
            if set(res) != bset or len(res) != len(base):
                fails.append(Fail("pre_filter", f"{cfg},{strat}: {res}", f"{base}", key_extra=f"{cfg},{strat}"))
        outcome_bits.append(str(min(len(M), 9)))
    nt = any(b != "0" for b in outcome_bits)
    return Outcome(nontrivial=nt, outcome="M" + "/".join(outcome_bits), fails=fails, transitions=ncalls)


def subchecks(tier, seed):
    return [
        Sub("hosts_le3", gen_full, check, key=lambda c: f"{c[0]}<-{c[1]}", rule=RULE[tier]),
        Sub("host_reps", gen_reps, check, key=lambda c: f"{c[0]}<-{c[1]}", rule=RULE[tier]),
    ]


def run(tier, seed):
    acc = run_subs(subchecks(tier, seed), tier, seed)
    return acc, True, {}
