"""C13 — clustering partitions graphs exactly into isomorphism classes (E1 + E2)."""
from __future__ import annotations

import copy
import itertools

from mc import enum_graphs as eg
from mc import ref_match as rm
from mc.core import Fail, Outcome, Sub, run_subs

PROPERTY = "C13"
ASSUMPTIONS = [
    "items are reaction-centre graphs from Data/Testcase/graph.pkl.gz plus synthetic centres with tied elements and different charges; near-misses (one order pair or one charge changed) are verified non-isomorphic by ref_match before use",
    "pre-grouping attribute is either none or an isomorphism-invariant string (sorted element multiset)",
    "oracle: isomorphism on (element, charge; order) by an independent backtracking enumerator",
    "template lists given to the incremental classifier may carry arbitrary distinct integer class ids (gaps, 1-based), as produced by dropping or curating representatives",
]
RULE = {
    "quick": "29 six-item pools (20 corpus windows + 9 synthetic: two shapes with equal atoms + bonds, tied elements / charges, disconnected centres repeating a component, the null graph three times, items differing only in hcount) x all 720 list orders through GraphCluster.fit (attribute none / invariant string; tuple and descending-list values on every sixth order), BatchCluster.fit with batch sizes {1,2,3,6,None} x "
    "template lists {empty, previous representatives, one representative dropped, ids shifted}, two-batch classification (representatives of a first fit, with no / an empty library, classify the second half) for every value shape, and incremental lib_check over all 720 arrival orders with the partition checked after every arrival; "
    "non-trivial = pool has a class with >=2 members",
    "thorough": "all 98 corpus windows + synthetic pools",
}

_CORPUS = None


def corpus():
    global _CORPUS
    if _CORPUS is None:
        from synkit.IO.data_io import load_from_pickle

        _CORPUS = [d["RC"] for d in load_from_pickle("/repo/Data/Testcase/graph.pkl.gz")]
    return _CORPUS


def nk(a, b):
    return a.get("element", "*") == b.get("element", "*") and a.get("charge", 0) == b.get("charge", 0)


def ek(a, b):
    return a.get("order", 1) == b.get("order", 1)


def iso(a, b):
    return rm.isomorphic(a, b, nk, ek)


def relabel(g, shift):
    import networkx as nx

    nodes = sorted(g.nodes)
    m = {v: nodes[(i + 1) % len(nodes)] + shift for i, v in enumerate(nodes)}
    h = nx.Graph()
    for v in reversed(nodes):  # different insertion order as well
        h.add_node(m[v], **copy.deepcopy(g.nodes[v]))
    for u, v, d in g.edges(data=True):
        h.add_edge(m[v], m[u], **copy.deepcopy(d))
    return h


def change_order(g):
    h = copy.deepcopy(g)
    u, v = sorted(h.edges)[0]
    o = h[u][v]["order"]
    h[u][v]["order"] = (o[0] + 1.0, o[1]) if isinstance(o, tuple) else o + 1.0
    return h


def change_charge(g):
    h = copy.deepcopy(g)
    v = sorted(h.nodes)[0]
    h.nodes[v]["charge"] = h.nodes[v].get("charge", 0) + 1
    return h


SYN_V = [{"element": "O", "charge": 0}, {"element": "O", "charge": -1}, {"element": "N", "charge": 1}, {"element": "C", "charge": 0}]
SYN_E = [{"order": (1.0, 1.0)}, {"order": (2.0, 1.0)}]


def synthetic_pools():
    import networkx as nx

    reps = [c for c in eg.representatives(3, 3, 2, connected_only=True) if 0 in c[0] and 1 in c[0]]
    reps4 = [c for c in eg.representatives(4, 3, 1, connected_only=True) if c[0].count(0) >= 1 and c[0].count(1) >= 1]
    pools = []
    for c, d in ((reps[0], reps[1]), (reps[2], reps[-1]), (reps4[0], reps4[1]), (reps4[2], reps4[-1])):
        g = eg.to_nx(c, SYN_V, SYN_E)
        g2 = eg.to_nx(d, SYN_V, SYN_E, node_ids=list(range(50, 50 + len(d[0]))))
        n = len(c[0])
        p1 = eg.to_nx(eg.permute(c, tuple(reversed(range(n)))), SYN_V, SYN_E, node_ids=list(range(20, 20 + n)), node_order=list(reversed(range(n))))
        p2 = eg.to_nx(eg.permute(c, tuple((i + 1) % n for i in range(n))), SYN_V, SYN_E, node_ids=list(range(30, 30 + n)))
        pools.append([g, p1, p2, change_charge(g), g2, change_order(g2)])
    # disconnected centres: two components of equal size; one item repeats a component where another has a different one
    def two(x, y, base, flip=False):
        G = nx.Graph()
        for k, (el, ch) in enumerate([x, y]):
            a, b = base + 2 * k, base + 2 * k + 1
            if flip:
                a, b = b, a
            G.add_node(a, element="C", charge=0)
            G.add_node(b, element=el, charge=ch)
            G.add_edge(a, b, order=(2.0, 1.0))
        return G

    O, N, S = ("O", 0), ("N", 1), ("O", -1)
    pools.append([two(O, O, 1), two(O, N, 11), two(O, O, 21, flip=True), two(N, O, 31), two(N, N, 41), two(O, S, 51)])
    pools.append([two(O, N, 1), two(O, O, 11), two(N, N, 21), two(N, O, 31, flip=True), two(S, S, 41), two(O, O, 51)])
    # the null graph (centre of a reaction in which no bond changes) several times among other items
    g = eg.to_nx(reps[0], SYN_V, SYN_E)
    e1, e2, e3 = nx.Graph(), nx.Graph(), nx.Graph()
    e3.graph["name"] = "empty"
    pools.append([e1, copy.deepcopy(g), e2, relabel(g, 40), e3, change_charge(g)])
    # items that agree on element, charge and bond order and differ in an attribute outside the class definition (hydrogen count)
    def with_h(x, hs):
        y = copy.deepcopy(x)
        for k, v in enumerate(sorted(y.nodes)):
            y.nodes[v]["hcount"] = hs[k % len(hs)]
        return y

    g2 = eg.to_nx(reps[1], SYN_V, SYN_E, node_ids=list(range(60, 60 + len(reps[1][0]))))
    pools.append([with_h(g, [2]), with_h(g, [3]), with_h(relabel(g, 40), [0, 1, 3]), with_h(g2, [1]), with_h(g2, [0, 2]), with_h(change_charge(g), [3])])
    # two shapes with different (atoms, bonds) and the same atoms + bonds: a four-ring with a chord (4, 5) and a five-chain (5, 4)
    def shape(edges, base, hetero):
        G = nx.Graph()
        for u, v in edges:
            for x in (u, v):
                G.add_node(base + x, element="O" if x == hetero else "C", charge=0)
            G.add_edge(base + u, base + v, order=(1.0, 2.0) if (u, v) == edges[0] else (1.0, 1.0))
        return G

    ring = [(0, 1), (1, 2), (2, 3), (3, 0), (0, 2)]
    chain = [(0, 1), (1, 2), (2, 3), (3, 4)]
    pools.append([shape(ring, 1, 3), shape(chain, 11, 4), shape(ring, 21, 3), shape(chain, 31, 4), change_charge(shape(ring, 41, 3)), change_order(shape(chain, 51, 4))])
    return pools


def pool(idx):
    """six items for pool number idx"""
    C = corpus()
    nwin = len(C) - 2
    if idx >= nwin:
        return synthetic_pools()[idx - nwin]
    g1, g2, g3 = C[idx], C[idx + 1], C[idx + 2]
    items = [copy.deepcopy(g1), relabel(g1, 100), change_order(g1), copy.deepcopy(g2), change_charge(g2), copy.deepcopy(g3)]
    assert not iso(items[0], items[2]) and not iso(items[3], items[4]) and iso(items[0], items[1])
    return items


def gen(tier, seed):
    nwin = len(corpus()) - 2
    wins = list(range(nwin)) if tier != "quick" else [(5 * k + seed) % nwin for k in range(20)]
    for w in sorted(set(wins)):
        yield w
    for k in range(9):
        yield nwin + k


def elem_sig(g):
    return "".join(sorted(str(d.get("element", "*")) for _, d in g.nodes(data=True)))


def partition_of(classes):
    out = {}
    for i, c in enumerate(classes):
        out.setdefault(c, set()).add(i)
    return {frozenset(v) for v in out.values()}


def check(widx):
    from synkit.Graph.Matcher.graph_cluster import GraphCluster
    from synkit.Graph.Matcher.batch_cluster import BatchCluster

    items = pool(widx)
    n = len(items)
    want_cls = []
    for i in range(n):
        for j in range(i):
            if iso(items[i], items[j]):
                want_cls.append(want_cls[j])
                break
        else:
            want_cls.append(i)
    want = partition_of(want_cls)
    fails = []
    ncalls = 0
    gc = GraphCluster()
    bc = BatchCluster()
    dead = set()

    def sig_of(g, kind):
        # isomorphism-invariant pre-grouping values of three shapes: a string, a tuple, a list that is not ascending
        if kind == "tuple":
            return (g.number_of_nodes(), g.number_of_edges())
        if kind == "desc_list":
            return sorted((d for _, d in g.degree()), reverse=True)
        return elem_sig(g)

    def data_of(order, with_sig):
        return [dict({"id": i, "gml": copy.deepcopy(items[i])}, **({"sig": sig_of(items[i], with_sig)} if with_sig else {})) for i in order]

    def judge(tag, data, cfg):
        if tag in dead:
            return
        cls = {}
        for e in data:
            c = e.get("class")
            if not isinstance(c, int) or isinstance(c, bool):
                fails.append(Fail(tag, f"{cfg}: item {e['id']} has class {c!r}", "exactly one integer class", key_extra=tag))
                dead.add(tag)
                return
            cls[e["id"]] = c
        got = partition_of([cls[i] for i in range(n)]) if len(cls) == n else None
        if got != want:
            fails.append(Fail(tag, f"{cfg}: partition {sorted(map(sorted, got)) if got else cls}", f"{sorted(map(sorted, want))}", key_extra=tag))
            dead.add(tag)

    prev_templates = None
    for pi, order in enumerate(itertools.permutations(range(n))):
        for with_sig in (False, "str") + (("tuple", "desc_list") if pi % 6 == 0 else ()):
            ak = "sig" if with_sig else None
            # one-shot clustering
            out = gc.fit(data_of(order, with_sig), rule_key="gml", attribute_key=ak)
            ncalls += 1
            judge("graph_cluster_fit", out, f"order={order} attr={ak}")
            if pi % 6 == 0:
                # batched clustering, empty templates
                for bs in (1, 2, 3, 6, None):
                    od, ot = bc.fit(data_of(order, with_sig), [], rule_key="gml", attribute_key=ak, batch_size=bs)
                    ncalls += 1
                    judge("batch_fit", od, f"order={order} attr={ak} batch_size={bs}")
                    if prev_templates is None and bs == 2:
                        prev_templates = [dict(t) for t in ot]
            # incremental arrival
            if "incremental" not in dead:
                templates = []
                arrived = []
                for i in order:
                    item = data_of([i], with_sig)[0]
                    before = {t["class"] for t in templates}
                    iso_tpl = [t["class"] for t in templates if iso(t["gml"], item["gml"])]
                    res, templates = bc.lib_check(item, templates, rule_key="gml", attribute_key=ak)
                    ncalls += 1
                    arrived.append(res)
                    c = res.get("class")
                    ok = isinstance(c, int) and ((c in iso_tpl) if iso_tpl else (c not in before))
                    if ok:
                        cl = {e["id"]: e["class"] for e in arrived}
                        ok = all((cl[a] == cl[b]) == (want_cls[a] == want_cls[b]) for a in cl for b in cl)
                    if not ok:
                        fails.append(Fail("incremental", f"arrival order {order} attr={ak}: item {i} -> class {c!r} (templates {sorted(before)})", "class of its isomorphic representative, else a fresh class", key_extra="incremental"))
                        dead.add("incremental")
                        break
        if pi % 24 == 0 and "two_batches" not in dead:
            # representatives produced by a first fit (no library given / empty library) classify a second batch, for every shape of the pre-grouping value
            for kind in (False, "str", "tuple", "desc_list"):
                for lib0 in (None, []):
                    for bs in (None, 2):
                        try:
                            d1, t1 = bc.fit(data_of(order[:3], kind), lib0, rule_key="gml", attribute_key="sig" if kind else None, batch_size=bs)
                            second = data_of(order[3:], kind)
                            if bs == 2:
                                # the second batch was clustered on its own before: its entries carry batch-local class ids
                                second = [dict(e) for e in gc.fit(second, rule_key="gml", attribute_key="sig" if kind else None)]
                            d2, t2 = bc.fit(second, t1, rule_key="gml", attribute_key="sig" if kind else None, batch_size=bs)
                        except Exception as e:
                            fails.append(Fail("two_batches", f"attr={kind} library={lib0} batch_size={bs} order={order}: {type(e).__name__}: {e}", "classes", key_extra="two_batches"))
                            dead.add("two_batches")
                            break
                        ncalls += 2
                        cl = {e["id"]: e.get("class") for e in list(d1) + list(d2)}
                        if len(cl) != n or not all((cl[a] == cl[b]) == (want_cls[a] == want_cls[b]) for a in cl for b in cl):
                            fails.append(Fail("two_batches", f"attr={kind} library={lib0} batch_size={bs} order={order}: classes {cl}", f"partition {sorted(map(sorted, want))}", key_extra="two_batches"))
                            dead.add("two_batches")
                            break
                    if "two_batches" in dead:
                        break
                if "two_batches" in dead:
                    break
        if pi % 24 == 0 and prev_templates and "templates" not in dead:
            # classification against given representatives: previous run, one dropped, ids shifted
            variants = {
                "previous": [dict(t) for t in prev_templates],
                "dropped": [dict(t) for t in prev_templates[1:]] if len(prev_templates) > 2 else [dict(t) for t in prev_templates],
                "shifted": [dict(t, **{"class": t["class"] + 1}) for t in prev_templates],
                "gapped": [dict(t, **{"class": 2 * t["class"] + (3 if t["class"] else 0)}) for t in prev_templates],
            }
            for vname, tpl in variants.items():
                for bs in (None, 2):
                    tp = [dict(t, gml=copy.deepcopy(t["gml"])) for t in tpl]
                    tcls = {t["class"] for t in tp}
                    od, ot = bc.fit(data_of(order, False), tp, rule_key="gml", attribute_key=None, batch_size=bs)
                    ncalls += 1
                    fresh_seen = {}
                    for e in od:
                        iso_t = [t["class"] for t in tpl if iso(t["gml"], e["gml"])]
                        c = e.get("class")
                        if iso_t:
                            good = c in iso_t
                        else:
                            good = isinstance(c, int) and c not in tcls
                        if not good:
                            fails.append(Fail("templates", f"{vname} batch_size={bs} order={order}: item {e['id']} -> {c!r}, template classes {sorted(tcls)}", "its representative's class or a fresh one", key_extra="templates"))
                            dead.add("templates")
                            break
                    else:
                        cl = {e["id"]: e["class"] for e in od}
                        if not all((cl[a] == cl[b]) == (want_cls[a] == want_cls[b]) for a in cl for b in cl):
                            fails.append(Fail("templates", f"{vname} batch_size={bs} order={order}: classes {cl}", f"partition {sorted(map(sorted, want))}", key_extra="templates"))
                            dead.add("templates")
                    if "templates" in dead:
                        break
                if "templates" in dead:
                    break
    return Outcome(nontrivial=any(len(s) > 1 for s in want), outcome=f"classes{len(want)}", fails=fails, transitions=ncalls)


def subchecks(tier, seed):
    return [Sub("pools", gen, check, key=lambda c: f"pool{c}", rule=RULE[tier])]


def run(tier, seed):
    acc = run_subs(subchecks(tier, seed), tier, seed)
    return acc, True, {}
