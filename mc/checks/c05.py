"""C05 — rule application depends on the chemistry only, not on how inputs are written (E1)."""
from mc.core import run_subs
from mc.checks import rule_layer as rl

PROPERTY = "C05"
ASSUMPTIONS = [
    "failures of one (reaction, direction) input under the renumbering / rewriting / graph-numbering tags are one finding (which tag fires depends on the seed-dependent base numbering)",
    "pairs: every usable corpus reaction with its own centre template, forward and backward; the X-Y + C=C synthetic family is covered by C11's pruning layer",
    "metamorphic oracle: the set of RDKit-canonical distinct reactions must be identical across template renumberings, substrate rewritings and repeated calls; component-aware results are a subset of the exhaustive ones; "
    "the fallback strategy equals the component-aware result when that is non-empty and the exhaustive result otherwise",
]
RULE = {
    "quick": "every usable reaction (corpus + hand-written) x {forward, backward} x 8 template renumberings (identity, shifts, reversal, centre transpositions) x substrate re-rootings and fragment orders, substrate as graph under "
    "other node numberings x repeated calls x strategies all/comp/bt; the same invariance with automorphism=True (4 renumberings, all rewritings); template handed over as reaction string / ITS graph / SynRule object (centre and full)",
    "thorough": "all shifts, all centre permutations, all re-rootings",
}


def subchecks(tier, seed):
    return rl.c05_subs(tier, seed)


def run(tier, seed):
    acc = run_subs(subchecks(tier, seed), tier, seed)
    return acc, True, {}
