"""C03 — every reaction proposed by rule application is a genuine instance of the rule (E1)."""
from mc.core import run_subs
from mc.checks import rule_layer as rl

PROPERTY = "C03"
ASSUMPTIONS = [
    "templates and substrates come from the corpus reactions that are formula-balanced, fully and bijectively mapped and write their centre hydrogens consistently (decided by the harness with RDKit)",
    "explicit-H corpus (graph.pkl) is run with the default H mode, the implicit-H corpus (ecoli) with implicit_temp=True / explicit_h=False",
    "(b) is only required of rules that are themselves conserving: full-ITS templates always are; a centre template is only when every hydrogen/charge change of its source reaction lies on a changed bond",
    "(a) and (b) are judged on the emitted reaction strings with RDKit; (c) on the emitted ITS graphs: their changed-bond graph (order change per bond, element, hydrogen-count and charge change per end atom, explicit "
    "hydrogens folded into counts; for templates that carry every change of their source reaction also every atom that changes its charge off the changed bonds) must be isomorphic (ref_match) to the one computed by the "
    "harness from the template's source reaction",
    "templates between centre and full ITS (radius 1/2, partial second shell) are judged for (a)-(c) only; regeneration (C04) is stated for centre and full templates",
]
RULE = {
    "quick": "every usable reaction (corpus + 28 hand-written explicit-hydrogen reactions + the 112 explicit-hydrogen reactions whose hydrogens all have one heavy neighbour once more with every hydrogen implicit, in implicit-H mode; the hand-written ones cover charged look-alike atoms, duplicated molecules, aromatic ring formation, unsymmetrical cycloaddition) x own template "
    "{centre: all/bt; full ITS: bt/comp; centre + radius 1 / radius 2; centre + first shell + one second-shell atom (4 of them, look-alike siblings first); the reaction string itself} x {forward, backward}; "
    "round trips: the template as a string (centre and full) on two copies of the reactants, then the opposite direction on each product mixture, and backwards first under another numbering; "
    "every centre template x 2 substrates of other reactions x {forward, backward} x {all, bt}; 4 wildcard rules x 12 substrates; every output judged; non-trivial = at least one output",
    "thorough": "all strategies for every template kind; every second-shell atom; 20 foreign substrates per template",
}


def subchecks(tier, seed):
    return rl.c03_subs(tier, seed)


def run(tier, seed):
    acc = run_subs(subchecks(tier, seed), tier, seed)
    return acc, True, {}
