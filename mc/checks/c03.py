"""C03 — every reaction proposed by rule application is a genuine instance of the rule (E1)."""
from mc.core import run_subs
from mc.checks import rule_layer as rl

PROPERTY = "C03"
ASSUMPTIONS = [
    "templates and substrates come from the corpus reactions that are formula-balanced, fully and bijectively mapped and write their centre hydrogens consistently (decided by the harness with RDKit)",
    "explicit-H corpus (graph.pkl) is run with the default H mode, the implicit-H corpus (ecoli) with implicit_temp=True / explicit_h=False",
    "(b) is only required of rules that are themselves conserving: full-ITS templates always are; a centre template is only when every hydrogen/charge change of its source reaction lies on a changed bond",
    "(a) and (b) are judged on the emitted reaction strings with RDKit; (c) on the emitted ITS graphs: their changed-bond graph (order change per bond, element and hydrogen-count change per end atom, explicit "
    "hydrogens folded into counts) must be isomorphic (ref_match) to the one computed by the harness from the template's source reaction",
]
RULE = {
    "quick": "every usable corpus reaction x own template {centre: strategies all/comp/bt; full ITS: bt} x {forward, backward}; every centre template x 4 substrates of other reactions x {forward, backward} x {all, bt}; "
    "every output judged; non-trivial = at least one output",
    "thorough": "all strategies for both template kinds; 25 foreign substrates per template",
}


def subchecks(tier, seed):
    return rl.c03_subs(tier, seed)


def run(tier, seed):
    acc = run_subs(subchecks(tier, seed), tier, seed)
    return acc, True, {}
