"""C08 — graph canonicalisation faithful & sound; exact back-end invariant (E1 + order seam)."""
from __future__ import annotations

import itertools
from collections import defaultdict

from mc import enum_graphs as eg
from mc import ref_match as rm
from mc.core import Acc, Fail, Outcome, Sub, run_subs, pmap, NPROC

PROPERTY = "C08"
ASSUMPTIONS = [
    "alphabet: elements {C,O} x hcount {0,1}, charge 0, aromatic False (so the default node key has genuine ties); bond orders {1,2}; undirected graphs",
    "presentations of one graph: every node permutation x node insertion orders x both edge orientations",
    "soundness is decided over the whole enumerated family: class representatives are pairwise non-isomorphic by construction, so any signature shared by two of them is a collision",
    "invariance (same canonical graph and signature for every presentation) is required of the exact back-end 'nauty' only; generic/wl/morgan must be faithful, deterministic and sound",
]
RULE = {
    "quick": "class representatives n<=3 over 4 node labels x 2 bond orders and n=4 over 2 node labels x 2 bond orders; each under all n! node permutations x 4 insertion orders "
    "(identity, reversed, two rotations) x 2 edge orientations; back-ends generic/wl/morgan/nauty; symmetric families (C3..C6, K22, K23, star, 2xC3) under all permutations (n<=5) or "
    "rotations/reflections; every digraph on 2-3 nodes (see the digraphs sub-check); non-trivial = graph has a non-trivial automorphism or tied node keys",
    "thorough": "all n! x n! presentations for n<=4 over 4 node labels (<=4 bonds), n=5 representatives over 2 labels x single bonds, symmetric families up to the cube Q3 and K33",
}

VATTR = [
    {"element": "C", "charge": 0, "aromatic": False, "hcount": 0},
    {"element": "C", "charge": 0, "aromatic": False, "hcount": 1},
    {"element": "O", "charge": 0, "aromatic": False, "hcount": 0},
    {"element": "O", "charge": 0, "aromatic": False, "hcount": 1},
]
EATTR = [{"order": 1.0, "standard_order": 0.0}, {"order": 2.0, "standard_order": 0.0}]
BACKENDS = ["generic", "wl", "morgan", "nauty"]
# ITS-like graphs: edges carry the (before, after) order pair and its difference
EATTR_ITS = [{"order": (1.0, 1.0), "standard_order": 0.0}, {"order": (1.0, 2.0), "standard_order": -1.0}, {"order": (2.0, 1.0), "standard_order": 1.0}]


def tables(mode):
    return (VATTR, EATTR_ITS) if mode.startswith("its") else (VATTR, EATTR)


def sym_families(tier):
    import networkx as nx

    fams = {"C3": nx.cycle_graph(3), "C4": nx.cycle_graph(4), "C5": nx.cycle_graph(5), "C6": nx.cycle_graph(6), "K22": nx.complete_bipartite_graph(2, 2),
            "K23": nx.complete_bipartite_graph(2, 3), "S4": nx.star_graph(4), "2C3": nx.disjoint_union(nx.cycle_graph(3), nx.cycle_graph(3)), "P4": nx.path_graph(4)}
    if tier != "quick":
        fams.update({"C7": nx.cycle_graph(7), "C8": nx.cycle_graph(8), "K33": nx.complete_bipartite_graph(3, 3), "Q3": nx.hypercube_graph(3)})
    out = {}
    for name, g in fams.items():
        g = nx.convert_node_labels_to_integers(g)
        n = g.number_of_nodes()
        labels = tuple(0 for _ in range(n))
        edges = tuple(1 if g.has_edge(i, j) else 0 for i, j in eg.pairs(n))
        out[name] = (labels, edges)
    return out


def gen(tier, seed):
    for n in (1, 2, 3):
        for c in eg.representatives(n, 4, 2):
            yield [eg.code_str(c), "full"]
    if tier == "quick":
        for c in eg.representatives(4, 2, 2):
            yield [eg.code_str(c), "quick4"]
    else:
        for c in eg.representatives(4, 4, 2):
            if eg.n_edges(c) <= 4:
                yield [eg.code_str(c), "full"]
        for c in eg.representatives(5, 2, 1):
            yield [eg.code_str(c), "rot"]
    for name, c in sym_families(tier).items():
        yield [eg.code_str(c), "full" if len(c[0]) <= 5 else "rot"]
    # ITS-like family: three edge labels (unchanged / order up / order down)
    for n in (2, 3):
        for c in eg.representatives(n, 2, 3):
            yield [eg.code_str(c), "its"]
    for c in eg.representatives(4, 1, 3):
        if eg.n_edges(c) <= 4:
            yield [eg.code_str(c), "its"]
    if tier != "quick":
        for c in eg.representatives(5, 1, 3, connected_only=True):
            if eg.n_edges(c) <= 5 and any(e > 1 for e in c[1]):
                yield [eg.code_str(c), "itsrot"]
    # six-ring with alternating changes (Cope-like) and a symmetric variant
    ring = lambda labs: ((0,) * 6, tuple(labs[(i, j)] if (i, j) in labs else 0 for i, j in eg.pairs(6)))
    yield [eg.code_str(ring({(0, 1): 2, (1, 2): 3, (2, 3): 2, (3, 4): 3, (4, 5): 2, (0, 5): 3})), "itsrot"]
    yield [eg.code_str(ring({(0, 1): 2, (1, 2): 3, (2, 3): 1, (3, 4): 3, (4, 5): 2, (0, 5): 1})), "itsrot"]


def presentations(code, mode):
    mode = mode.replace("its", "") or "quick4"
    n = len(code[0])
    if mode == "rot":
        perms = [tuple((i + k) % n for i in range(n)) for k in range(n)] + [tuple((k - i) % n for i in range(n)) for k in range(n)]
        perms += [tuple(reversed(range(n)))]
        perms = list(dict.fromkeys(perms))
        orders = [tuple(range(n)), tuple(reversed(range(n)))]
    else:
        perms = list(itertools.permutations(range(n)))
        if mode == "full" and n <= 3:
            orders = list(itertools.permutations(range(n)))
        elif mode == "fullfull":
            orders = list(itertools.permutations(range(n)))
        else:
            orders = list(dict.fromkeys([tuple(range(n)), tuple(reversed(range(n))), tuple((i + 1) % n for i in range(n)), tuple((i + 2) % n for i in range(n))]))
    for p in perms:
        pc = eg.permute(code, p)
        for o in orders:
            for flip in (False, True):
                yield pc, o, flip


def full_attr_eq(a, b):
    return a == b


def check(case):
    from synkit.Graph.Canon.canon_graph import GraphCanonicaliser
    from synkit.Graph.syn_graph import SynGraph

    s, mode = case
    code = eg.parse_code(s)
    n = len(code[0])
    if FULLFULL and mode == "full":
        mode = "fullfull"
    fails = []
    ncalls = 0
    canons = {b: GraphCanonicaliser(backend=b) for b in BACKENDS}
    from synkit.Graph.canon_graph import GraphCanonicaliser as TwinCanonicaliser  # the second copy of the module (used by SynGraph/SynRule by default)

    twin = TwinCanonicaliser(backend="nauty")
    sigs = {b: set() for b in BACKENDS}
    first = {}
    dead = set()
    VA, EA = tables(mode)
    base = eg.to_nx(code, VA, EA)
    autos = len(rm.automorphisms(base, full_attr_eq, full_attr_eq))
    tied = len(set(code[0])) < n
    ref_syn = None
    for pi, (pc, order, flip) in enumerate(presentations(code, mode)):
        g = eg.to_nx(pc, VA, EA, node_order=order, edge_flip=flip)
        for b in BACKENDS:
            if b in dead:
                continue
            can = canons[b]
            cg = can.make_canonical_graph(g)
            sig = can.canonical_signature(g)
            ncalls += 2
            key = f"{b}"
            # faithful: nodes exactly 1..N, attributes preserved under a bijection
            if sorted(cg.nodes) != list(range(1, n + 1)):
                fails.append(Fail("labels_not_1_to_N", f"{b}: nodes {sorted(cg.nodes)}", f"{list(range(1, n + 1))}", key_extra=key))
                dead.add(b)
                continue
            if pi < 8 or pi % 7 == 0:
                if not rm.isomorphic(g, cg, full_attr_eq, full_attr_eq):
                    fails.append(Fail("not_faithful", f"{b}: canonical graph is not an attribute-preserving relabelling", "isomorphic with all attributes", key_extra=key))
                    dead.add(b)
                    continue
                # deterministic: repeated call and copy
                if can.canonical_signature(g) != sig or can.canonical_signature(g.copy()) != sig:
                    fails.append(Fail("signature_not_deterministic", f"{b}", "same signature on repeat / copy", key_extra=key))
                    dead.add(b)
                    continue
                ncalls += 2
            sigs[b].add(sig)
            if b == "nauty":
                snap = (tuple(sorted((v, tuple(sorted(d.items()))) for v, d in cg.nodes(data=True))),
                        tuple(sorted((min(u, v), max(u, v), tuple(sorted(d.items()))) for u, v, d in cg.edges(data=True))))
                if "nauty" not in first:
                    first["nauty"] = (snap, sig)
                    ref_syn = SynGraph(g, can)
                else:
                    if snap != first["nauty"][0]:
                        fails.append(Fail("nauty_canonical_graph_varies", f"presentation perm/order/flip #{pi}", "same canonical graph for every presentation", key_extra=key))
                        dead.add(b)
                        continue
                    if pi % 3 == 0 and "twin" not in dead:
                        tsig = twin.canonical_signature(g)
                        if tsig != first["nauty"][1]:
                            fails.append(Fail("twin_module_signature_varies", f"synkit.Graph.canon_graph presentation #{pi}: {tsig}", f"{first['nauty'][1]}", key_extra="twin"))
                            dead.add("twin")
                    if sig != first["nauty"][1]:
                        fails.append(Fail("nauty_signature_varies", f"presentation #{pi}: {sig} vs {first['nauty'][1]}", "same signature", key_extra=key))
                        dead.add(b)
                        continue
                    if pi % 5 == 0:
                        sg = SynGraph(g, can)
                        if not (sg == ref_syn and hash(sg) == hash(ref_syn)):
                            fails.append(Fail("syngraph_unequal", f"presentation #{pi}", "SynGraph objects of isomorphic content compare equal", key_extra=key))
                            dead.add(b)
    out = Outcome(nontrivial=(autos > 1 or tied), outcome=f"aut{min(autos, 9)}", fails=fails, transitions=ncalls)
    out.sigs = {b: sorted(v) for b, v in sigs.items()}  # type: ignore[attr-defined]
    return out


# ------------------------------------------------------------------ directed graphs (the class documents that digraphs are preserved)
def gen_digraphs(tier, seed):
    for n in (2, 3):
        for labs in itertools.combinations_with_replacement((0, 1), n):
            yield {"n": n, "labels": list(labs)}


def di_code(labels, arcs, perm):
    """labels and arc matrix of the digraph renumbered by perm, as a comparable tuple"""
    n = len(labels)
    inv = [0] * n
    for i, p in enumerate(perm):
        inv[p] = i
    return (tuple(labels[inv[i]] for i in range(n)), tuple(arcs.get((inv[i], inv[j]), 0) for i in range(n) for j in range(n) if i != j))


def check_digraphs(case):
    """every digraph on n nodes with the given label multiset (arcs absent / order 1 / order 2 per ordered pair), every node numbering"""
    import networkx as nx
    from synkit.Graph.Canon.canon_graph import GraphCanonicaliser

    n = case["n"]
    fails = []
    ncalls = 0
    canons = {b: GraphCanonicaliser(backend=b) for b in BACKENDS}
    pairs = [(i, j) for i in range(n) for j in range(n) if i != j]
    perms = list(itertools.permutations(range(n)))
    sig_to_class = {b: {} for b in BACKENDS}
    dead = set()
    arrangements = sorted(set(itertools.permutations(case["labels"])))
    opts = (0, 1, 2) if (n == 2 or TIER_T[0] != "quick") else (0, 1)
    for labels in arrangements:
        for choice in itertools.product(opts, repeat=len(pairs)):
            arcs = {p: c for p, c in zip(pairs, choice) if c}
            cls = min(di_code(labels, arcs, p) for p in perms)
            if di_code(labels, arcs, tuple(range(n))) != cls and TIER_T[0] == "quick" and n == 3:
                continue  # quick: one member per isomorphism class (every numbering of it is still presented below)
            first = {}
            for perm in perms:
                g = nx.DiGraph()
                for i in sorted(range(n), key=lambda i: perm[i]):
                    g.add_node(perm[i] + 1, **dict(DI_VATTR[labels[i]]))
                for (i, j), c in arcs.items():
                    g.add_edge(perm[i] + 1, perm[j] + 1, order=float(c))
                for b in BACKENDS:
                    if b in dead:
                        continue
                    can = canons[b]
                    try:
                        cg = can.make_canonical_graph(g)
                        sig = can.canonical_signature(g)
                    except Exception as e:
                        fails.append(Fail("digraph_exception", f"{b}: {type(e).__name__}: {e}", "a canonical digraph", key_extra=b))
                        dead.add(b)
                        continue
                    ncalls += 2
                    ok = isinstance(cg, nx.DiGraph) and sorted(cg.nodes) == list(range(1, n + 1)) and cg.number_of_edges() == len(arcs)
                    if ok:
                        # some bijection input -> canonical preserves labels and arcs with their attributes
                        ok = any(all(dict(g.nodes[u + 1]) == dict(cg.nodes[q[u] + 1]) for u in range(n)) and all(cg.has_edge(q[u - 1] + 1, q[v - 1] + 1) and dict(cg[q[u - 1] + 1][q[v - 1] + 1]) == dict(d) for u, v, d in g.edges(data=True)) for q in perms)
                    if not ok:
                        fails.append(Fail("digraph_not_faithful", f"{b}: arcs {sorted(g.edges(data='order'))} labels {dict(g.nodes(data='element'))} -> {sorted(cg.edges(data='order'))} {type(cg).__name__}", "the input digraph relabelled onto 1..N", key_extra=b))
                        dead.add(b)
                        continue
                    prev = sig_to_class[b].setdefault(sig, cls)
                    if prev != cls:
                        fails.append(Fail("digraph_signature_collision", f"{b}: one signature for the non-isomorphic digraphs {prev} and {cls}", "different signatures", key_extra=b))
                        dead.add(b)
                        continue
                    if b == "nauty":
                        snap = (sig, tuple(sorted((v, tuple(sorted(d.items()))) for v, d in cg.nodes(data=True))), tuple(sorted((u, v, tuple(sorted(d.items()))) for u, v, d in cg.edges(data=True))))
                        if first.setdefault(b, snap) != snap:
                            fails.append(Fail("digraph_nauty_varies", f"arcs {sorted(g.edges(data='order'))}: another numbering gave {first[b][2]}, this one {snap[2]}", "one canonical digraph and signature for every numbering", key_extra=b))
                            dead.add(b)
    return Outcome(nontrivial=True, outcome=f"di{n}", fails=fails, transitions=ncalls)


# ------------------------------------------------------------------ rule wrappers (SynRule): equality and hash follow the content
RULE_PAIRS = {
    "cbr_heterolysis": "[CH3:1][Br:2]>>[CH3+:1].[Br-:2]",
    "cbr_homolysis": "[CH3:1][Br:2]>>[CH3:1].[Br:2]",
    "co_zwitterion": "[CH2:1]=[O:2]>>[CH2+:1][O-:2]",
    "co_diradical": "[CH2:1]=[O:2]>>[CH2:1][O:2]",
    "oh_deprotonation": "[CH3:1][O:2][H:3]>>[CH3:1][O-:2].[H+:3]",
    "oh_homolysis": "[CH3:1][O:2][H:3]>>[CH3:1][O:2].[H:3]",
    "n_protonation": "[CH3:1][NH2:2].[H+:3]>>[CH3:1][NH2+:2][H:3]",
    "n_h_atom": "[CH3:1][NH:2].[H:3]>>[CH3:1][NH:2][H:3]",
}


def gen_rules(tier, seed):
    yield {"what": "rule_wrappers"}


def check_rules(case):
    """every pair of rules from the hand-written reactions (each also renumbered): a renumbered copy is equal and hashes equal
    (exact back-end); rules whose left or right graphs are not isomorphic are unequal (every back-end tried)"""
    from synkit.Rule.syn_rule import SynRule
    from synkit.Graph.Canon.canon_graph import GraphCanonicaliser
    from synkit.IO.chem_converter import rsmi_to_its
    from synkit.Graph.ITS.its_decompose import its_decompose
    from mc import enum_rxn as er
    from mc.curated import CURATED, minimal_explicit

    rx = {f"cur#{k}": minimal_explicit(v) for k, v in CURATED.items()}
    rx.update({f"pair#{k}": v for k, v in RULE_PAIRS.items()})
    items = []
    for name, s in rx.items():
        if er.parse(s) is None:
            continue
        maps = er.all_maps(s)
        for tag, t in (("as_written", s), ("reversed_numbering", er.renumber(s, er.reversal_map(maps))), ("shifted_numbering", er.renumber(s, er.shift_map(maps, 1)))):
            try:
                its = rsmi_to_its(t, core=True)
            except Exception:
                continue
            if its is None or its.number_of_nodes() == 0:
                continue
            l, r = its_decompose(its)
            items.append((name, tag, its, l, r))
    fails = []
    n = 0

    def side_iso(a, b):
        key = lambda d: (d.get("element"), d.get("charge"), d.get("aromatic"), d.get("hcount"))
        return rm.isomorphic(a, b, lambda x, y: key(x) == key(y), lambda x, y: x.get("order") == y.get("order"))

    for backend in ("nauty", None):
        rules = []
        for name, tag, its, l, r in items:
            kw = {"canonicaliser": GraphCanonicaliser(backend=backend)} if backend else {}
            rules.append(SynRule(its, implicit_h=False, **kw))
        for i in range(len(items)):
            for j in range(i + 1, len(items)):
                a, b = items[i], items[j]
                eq = rules[i] == rules[j]
                n += 1
                if a[0] == b[0]:
                    if backend == "nauty" and not (eq and hash(rules[i]) == hash(rules[j])):
                        fails.append(Fail("rule_copies_unequal", f"{a[0]}: {a[1]} vs {b[1]}: equal={eq} hashes equal={hash(rules[i]) == hash(rules[j])}", "a renumbered copy of a rule is equal and hashes equal (exact back-end)", key_extra=f"{a[0]}"))
                elif eq and not (side_iso(a[3], b[3]) and side_iso(a[4], b[4])):
                    fails.append(Fail("different_rules_equal", f"{a[0]} ({a[1]}) == {b[0]} ({b[1]}) with back-end {backend or 'default'}", "rules whose left or right graphs are not isomorphic are unequal", key_extra=f"{a[0]}~{b[0]},{backend}"))
        if len(fails) > 20:
            break
    return Outcome(nontrivial=True, outcome="rules", fails=fails[:40], transitions=n)


TIER_T = ["quick"]
DI_VATTR = [{"element": "C", "charge": 0, "aromatic": False, "hcount": 0}, {"element": "O", "charge": 0, "aromatic": False, "hcount": 0}]
FULLFULL = False


def _setup_t():
    global FULLFULL
    FULLFULL = True
    TIER_T[0] = "thorough"


# soundness: signatures of different (pairwise non-isomorphic) representatives must differ
def sig_worker(args):
    from mc.core import quiet
    from synkit.Graph.Canon.canon_graph import GraphCanonicaliser

    quiet()
    tier, shard, nshards = args
    canons = {b: GraphCanonicaliser(backend=b) for b in BACKENDS}
    out = []
    for i, (s, mode) in enumerate(gen(tier, 0)):
        if i % nshards != shard:
            continue
        code = eg.parse_code(s)
        n = len(code[0])
        seen = {b: set() for b in BACKENDS}
        # a sub-family of presentations is enough to collect candidate signatures for collisions
        VA, EA = tables(mode)
        for pi, (pc, order, flip) in enumerate(presentations(code, ("itsrot" if mode.startswith("its") else "rot") if n > 3 else mode)):
            g = eg.to_nx(pc, VA, EA, node_order=order, edge_flip=flip)
            for b in BACKENDS:
                seen[b].add(canons[b].canonical_signature(g))
        for b in BACKENDS:
            for sg in seen[b]:
                out.append((b, sg, s + ("|its" if mode.startswith("its") else "")))
    return out


def soundness(tier):
    acc = Acc()
    res = pmap(sig_worker, [(tier, sh, NPROC) for sh in range(NPROC)])
    groups = defaultdict(set)
    for part in res:
        for b, sg, s in part:
            groups[(b, sg)].add(s)
    sub = acc.sub("soundness")
    ncls = defaultdict(set)
    for (b, sg), reps in groups.items():
        sub["cases"] += 1
        acc.transitions += 1
        sub["transitions"] += 1
        ncls[b] |= reps
        # the same graph can be yielded by two families (e.g. C3 as a representative and as a symmetric family): compare isomorphism classes
        if len(reps) > 1:
            def mk(x):
                its = x.endswith("|its")
                return eg.to_nx(eg.parse_code(x.split("|")[0]), VATTR, EATTR_ITS if its else EATTR)

            codes = [eg.parse_code(x.split("|")[0]) for x in sorted(reps)]
            graphs = [mk(x) for x in sorted(reps)]
            g0 = graphs[0]
            for c, gx in zip(codes[1:], graphs[1:]):
                if not rm.isomorphic(g0, gx, full_attr_eq, full_attr_eq):
                    sub["violations"] += 1
                    acc.violations.append({"sub": "soundness/signature_collision", "key": f"{b}|{eg.code_str(codes[0])}|{eg.code_str(c)}", "observed": f"same signature {sg}", "expected": "different signatures for non-isomorphic graphs",
                                           "case": {"backend": b, "a": eg.code_str(codes[0]), "b": eg.code_str(c)}, "subcheck": "soundness"})
                    break
    for b in BACKENDS:
        acc.extra[f"distinct_signatures_{b}"] = sum(1 for (bb, _) in groups if bb == b)
        acc.extra[f"graphs_{b}"] = len(ncls[b])
    return acc


def subchecks(tier, seed):
    return [
        Sub("presentations", gen, check, key=lambda c: c[0], rule=RULE[tier], setup=None if tier == "quick" else _setup_t),
        Sub("rule_wrappers", gen_rules, check_rules, key=lambda c: c["what"], rule="all pairs of SynRule objects built from the hand-written reactions and 4 pairs of rules that differ only on the product side (heterolysis / homolysis ...), each under 3 numberings: "
            "copies equal and hash-equal with the exact back-end, rules with non-isomorphic sides unequal"),
        Sub("digraphs", gen_digraphs, check_digraphs, key=lambda c: f"n{c['n']}:{c['labels']}", setup=None if tier == "quick" else _setup_t,
            rule="every digraph on 2 and 3 nodes over 2 elements (per ordered pair: no arc / order 1 / order 2; quick n=3: no arc / order 1, one member per class) under every node numbering x 4 back-ends: "
            "canonical graph is the input digraph relabelled onto 1..N, signatures of non-isomorphic digraphs differ, the exact back-end gives one result for every numbering"),
    ]


def run(tier, seed):
    acc = run_subs(subchecks(tier, seed), tier, seed)
    acc.merge(soundness(tier))
    return acc, True, {}
