"""C01 — ITS encoding of a mapped reaction is lossless and invertible (E1)."""
from __future__ import annotations

from mc import enum_rxn as er
from mc import its_family as fam
from mc import ref_match as rm
from mc.core import Fail, Outcome, Sub, run_subs

PROPERTY = "C01"
ASSUMPTIONS = [
    "synthetic pairs: 9 node labels (element, aromatic, hcount, charge), bond orders {absent,1,2,1.5}, n<=3 (thorough n=4), nodes present on one side only included (content clause only)",
    "corpus precondition decided by the harness with RDKit: formula-balanced, every atom mapped, maps bijective between the sides",
    "RDKit canonical SMILES of map-stripped sides is the oracle for 'same unmapped reactants and products'",
    "atom-map equivalence of the written-back reaction: identical ITS by node id, or (fallback) bijective isomorphism found by ref_match",
]
RULE = {
    "quick": "80 315 synthetic (G,H) pairs on a shared node set (all label/order combinations for n<=2 up to a fixed 1-in-4 stride, n=3 restricted) x 2 edge orientations; every balanced bijectively "
    "mapped corpus reaction (187) x identity, 3 cyclic shifts, reversal, 3 centre transpositions, 6 re-rootings, fragment orders, reaction reversal; non-trivial = the two sides differ",
    "thorough": "294 251 synthetic pairs; corpus x all cyclic shifts, all centre permutations (<=5 atoms), all re-rootings, all fragment orders",
}
KEYS = ("element", "aromatic", "hcount", "charge")
DEFAULT = ("*", False, 0, 0)


def judge_its(G, H, its, fails, ctx, ignore_aromaticity=False):
    """content clause: union of atoms and bonds, (before, after) pair and difference on every bond"""
    nodes = set(G.nodes) | set(H.nodes)
    if set(its.nodes) != nodes:
        fails.append(Fail("its_nodes", f"{ctx}: {sorted(its.nodes)}", f"{sorted(nodes)}"))
        return False
    for v in nodes:
        t = its.nodes[v].get("typesGH")
        wg = tuple(G.nodes[v].get(k) for k in KEYS) if v in G else DEFAULT
        wh = tuple(H.nodes[v].get(k) for k in KEYS) if v in H else DEFAULT
        if not t or tuple(t[0][:4]) != wg or tuple(t[1][:4]) != wh:
            fails.append(Fail("its_node_labels", f"{ctx}: node {v} typesGH={t}", f"({wg},{wh})"))
            return False
    edges = {frozenset(e) for e in G.edges} | {frozenset(e) for e in H.edges}
    if {frozenset(e) for e in its.edges} != edges:
        fails.append(Fail("its_edges", f"{ctx}: {sorted(map(sorted, its.edges))}", f"{sorted(map(sorted, edges))}"))
        return False
    for e in edges:
        u, v = tuple(e)
        og = G[u][v]["order"] if G.has_edge(u, v) else 0.0
        oh = H[u][v]["order"] if H.has_edge(u, v) else 0.0
        d = its[u][v]
        diff = og - oh
        if ignore_aromaticity and abs(diff) < 1:
            diff = 0  # the flag is documented to zero small differences; the (before, after) pair stays
        if tuple(d.get("order", ())) != (og, oh) or d.get("standard_order") != diff:
            fails.append(Fail("its_edge_orders", f"{ctx}: edge {sorted(e)} order={d.get('order')} standard_order={d.get('standard_order')}", f"({og},{oh}), {diff}"))
            return False
    return True


def judge_decompose(G, H, its, fails, ctx, shared_only):
    from synkit.Graph.ITS.its_decompose import its_decompose

    G2, H2 = its_decompose(its)
    for name, A, B in (("G", G, G2), ("H", H, H2)):
        nodes = set(A.nodes)
        if shared_only:
            if not nodes <= set(B.nodes):
                fails.append(Fail("decompose_nodes", f"{ctx}: {name} nodes {sorted(B.nodes)}", f"superset of {sorted(nodes)}"))
                return
        elif set(B.nodes) != nodes:
            fails.append(Fail("decompose_nodes", f"{ctx}: {name} nodes {sorted(B.nodes)}", f"{sorted(nodes)}"))
            return
        for v in nodes:
            if tuple(B.nodes[v].get(k) for k in KEYS) != tuple(A.nodes[v].get(k) for k in KEYS):
                fails.append(Fail("decompose_labels", f"{ctx}: {name} node {v}: {[B.nodes[v].get(k) for k in KEYS]}", f"{[A.nodes[v].get(k) for k in KEYS]}"))
                return
        ea = {frozenset(e): A[e[0]][e[1]]["order"] for e in A.edges}
        eb = {frozenset(e): B[e[0]][e[1]]["order"] for e in B.edges if (not shared_only) or (e[0] in nodes and e[1] in nodes)}
        if ea != eb:
            fails.append(Fail("decompose_edges", f"{ctx}: {name} edges {sorted((sorted(k), v) for k, v in eb.items())}", f"{sorted((sorted(k), v) for k, v in ea.items())}"))
            return


def check_syn(case):
    from synkit.Graph.ITS.its_construction import ITSConstruction

    fails = []
    n = 0
    one_sided = None in case["gl"] or None in case["hl"]
    for flip, rev in ((False, False), (True, True)):
        G, H = fam.build(case, flip=flip, edge_order_reversed=rev)
        for bal, ia in ((False, False), (True, False), (False, True), (True, True)):
            its = ITSConstruction().ITSGraph(G, H, balance_its=bal, ignore_aromaticity=ia)
            n += 1
            ctx = f"flip={flip} balance_its={bal} ignore_aromaticity={ia}"
            if judge_its(G, H, its, fails, ctx, ignore_aromaticity=ia):
                judge_decompose(G, H, its, fails, ctx, shared_only=one_sided)
                n += 1
            if fails:
                break
        if fails:
            break
    return Outcome(nontrivial=case["gl"] != case["hl"] or case["ge"] != case["he"], outcome=f"n{case['n']}" + ("os" if one_sided else ""), fails=fails, transitions=n)


def strip_nb(t):
    return (tuple(t[0][:4]), tuple(t[1][:4]))


def same_its(a, b):
    if set(a.nodes) != set(b.nodes) or {frozenset(e) for e in a.edges} != {frozenset(e) for e in b.edges}:
        return False
    if any(strip_nb(a.nodes[v]["typesGH"]) != strip_nb(b.nodes[v]["typesGH"]) for v in a.nodes):
        return False
    return all(tuple(a[u][v]["order"]) == tuple(b[u][v]["order"]) for u, v in a.edges)


def iso_its(a, b):
    return rm.isomorphic(a, b, lambda x, y: strip_nb(x["typesGH"]) == strip_nb(y["typesGH"]), lambda x, y: tuple(x["order"]) == tuple(y["order"]))


NO_BOND_CHANGE = {
    "electron_transfer": "[Fe+2:1].[Ce+4:2]>>[Fe+3:1].[Ce+3:2]",
    "proton_transfer_implicit": "[CH3:1][OH:2].[NH3:3]>>[CH3:1][O-:2].[NH4+:3]",
    "pyridine_protonation_implicit": "[cH:1]1[cH:2][cH:3][n:4][cH:5][cH:6]1.[OH3+:7]>>[cH:1]1[cH:2][cH:3][nH+:4][cH:5][cH:6]1.[OH2:8]".replace(":8]", ":7]"),
    "zwitterion": "[NH2:1][CH2:2][C:3](=[O:4])[OH:5]>>[NH3+:1][CH2:2][C:3](=[O:4])[O-:5]",
    "radical_anion": "[CH3:1][C:2](=[O:3])[CH3:4].[Na:5]>>[CH3:1][C:2]([O-:3])[CH3:4].[Na+:5]",
}


def kekule_writing(rsmi):
    """the same reaction with aromatic rings written as alternating single and double bonds (what sanitisation would rewrite)"""
    from rdkit import Chem

    out = []
    for side in er.split(rsmi):
        m = Chem.MolFromSmiles(side)
        if m is None:
            return None
        try:
            Chem.Kekulize(m, clearAromaticFlags=True)
        except Exception:
            return None
        out.append(Chem.MolToSmiles(m, kekuleSmiles=True, canonical=False))
    return ">>".join(out)


def spectators(rsmi):
    """the reaction with a fully mapped molecule that does not take part added to both sides: H2, a proton, water"""
    top = max(er.all_maps(rsmi))
    r, p = er.split(rsmi)
    out = []
    for name, frag in (("h2", "[H:{a}][H:{b}]"), ("proton", "[H+:{a}]"), ("water", "[OH2:{a}]")):
        f = frag.format(a=top + 1, b=top + 2)
        out.append((name, f"{r}.{f}>>{p}.{f}"))
    return out


def gen_corpus(tier, seed):
    for rid, s in er.corpus_reactions():
        if not (er.is_balanced(s) and er.fully_mapped_bijective(s)):
            continue
        yield [rid, s]
    # reactions in which no bond changes and atoms do (charge / hydrogen count only)
    for name, s in NO_BOND_CHANGE.items():
        if er.is_balanced(s) and er.fully_mapped_bijective(s):
            yield [f"nobond#{name}", s]
    # hand-written explicit-hydrogen reactions in the corpus style (the hydrogens that move are atoms, the others counts; writing a
    # reaction back folds spectator hydrogen atoms by design, so the all-explicit writings are not round-trip inputs), each also with
    # spectator molecules
    from mc.curated import CURATED, minimal_explicit

    for name, s0 in CURATED.items():
        for style, s in (("min", minimal_explicit(s0)),):
            if not (er.is_balanced(s) and er.fully_mapped_bijective(s)):
                continue
            yield [f"cur{style}#{name}", s]
            if style == "min":
                for sn, t in spectators(s):
                    if er.is_balanced(t) and er.fully_mapped_bijective(t):
                        yield [f"cur{style}+{sn}#{name}", t]


def centre_maps(rsmi):
    """map numbers incident to a bond whose order differs between the sides (RDKit only)"""
    pr = er.parse(rsmi)
    b = []
    for m in pr:
        d = {}
        for bond in m.GetBonds():
            x, y = bond.GetBeginAtom().GetAtomMapNum(), bond.GetEndAtom().GetAtomMapNum()
            d[frozenset((x, y))] = bond.GetBondTypeAsDouble()
        b.append(d)
    out = set()
    for k in set(b[0]) | set(b[1]):
        if b[0].get(k, 0) != b[1].get(k, 0):
            out |= set(k)
    return sorted(out - {0})


def check_corpus(case):
    from synkit.IO.chem_converter import rsmi_to_graph, rsmi_to_its, its_to_rsmi
    from synkit.Graph.ITS.its_construction import ITSConstruction

    rid, s = case
    fails = []
    n = 0
    cm = centre_maps(s)
    for tag, v in er.variants(s, cm, TIER[0], SEED[0]):
        G, H = rsmi_to_graph(v)
        if G is None or H is None:
            fails.append(Fail("parse", f"{tag}: rsmi_to_graph returned None", "graphs", key_extra=tag))
            break
        its = rsmi_to_its(v)
        n += 1
        if not judge_its(G, H, its, fails, tag):
            break
        judge_decompose(G, H, its, fails, tag, shared_only=False)
        if fails:
            break
        if tag == "identity":
            # reading options reach both routes alike: the ITS of a reaction read without sanitisation (resp. keeping unmapped
            # fragments) is built from exactly the graphs rsmi_to_graph returns under the same options
            vk = kekule_writing(v)
            for label, text, kw in (("sanitize=False", vk, dict(sanitize=False)), ("sanitize=False,as_written", v, dict(sanitize=False)), ("drop_non_aam=False", v, dict(drop_non_aam=False))):
                if text is None:
                    continue
                try:
                    Gf, Hf = rsmi_to_graph(text, **kw)
                    its_f = rsmi_to_its(text, **kw)
                except Exception as e:
                    fails.append(Fail("reading_options", f"{label}: {type(e).__name__}: {e}", "graphs and ITS", key_extra=label))
                    break
                n += 1
                if Gf is None or Hf is None or its_f is None or not judge_its(Gf, Hf, its_f, fails, f"{tag}/{label}"):
                    break
            if fails:
                break
        if tag in ("identity", "reversal", "reverse"):
            its_ia = ITSConstruction().ITSGraph(G, H, ignore_aromaticity=True)
            n += 1
            if judge_its(G, H, its_ia, fails, tag + "/ignore_aromaticity", ignore_aromaticity=True):
                judge_decompose(G, H, its_ia, fails, tag + "/ignore_aromaticity", shared_only=False)
            if fails:
                break
        out = its_to_rsmi(its)
        n += 1
        if not out:
            fails.append(Fail("its_to_rsmi", f"{tag}: {out!r}", "a reaction SMILES", key_extra=tag))
            break
        if er.canon_rxn(out) != er.canon_rxn(v):
            fails.append(Fail("unmapped_sides", f"{tag}: {er.canon_rxn(out)}", f"{er.canon_rxn(v)}", key_extra=tag))
            break
        its2 = rsmi_to_its(out)
        n += 1
        if its2 is None or not (same_its(its, its2) or iso_its(its, its2)):
            fails.append(Fail("not_map_equivalent", f"{tag}: ITS of the written-back reaction differs", "atom-map-equivalent reaction", key_extra=tag))
            break
        if tag in ("identity", "reversal"):
            # conversions hand out independent objects: edit the graphs returned by the FIRST conversion of this string
            # (and a later one) in place, then convert the same string again
            import copy as _copy

            G0, H0 = _copy.deepcopy(G), _copy.deepcopy(H)
            later = rsmi_to_graph(v)
            for g in (G, H) + tuple(later):
                for x in list(g.nodes):
                    g.nodes[x]["charge"] = 9
                    g.nodes[x]["hcount"] = 0
                g.remove_edges_from(list(g.edges)[:1])
            G2, H2 = rsmi_to_graph(v)
            its3 = rsmi_to_its(v)
            n += 2
            if not judge_its(G0, H0, its3, fails, tag + "/after_editing_earlier_results") or not judge_its(G2, H2, its3, fails, tag + "/after_editing_earlier_results"):
                break
    return Outcome(nontrivial=bool(cm), outcome=f"centre{min(len(cm), 9)}", fails=fails, transitions=n)


TIER = ["quick"]
SEED = [0]


def subchecks(tier, seed):
    TIER[0], SEED[0] = tier, seed
    return [
        Sub("synthetic", lambda t, s: fam.pairs(t), check_syn, key=lambda c: f"n{c['n']}:{c['gl']}/{c['hl']}/{c['ge']}/{c['he']}", rule=RULE[tier]),
        Sub("corpus", gen_corpus, check_corpus, key=lambda c: c[0], rule=RULE[tier]),
    ]


def run(tier, seed):
    acc = run_subs(subchecks(tier, seed), tier, seed)
    return acc, True, {}
