"""C16 — network views (bipartite, reaction strings, species graph) round-trip exactly (E1)."""
from __future__ import annotations

import itertools
import zlib
from collections import Counter

from mc import enum_crn as ec
from mc.core import Fail, Outcome, Sub, run_subs

PROPERTY = "C16"
ASSUMPTIONS = [
    "label domain: species labels start with a letter and contain no blank, '+', '>' or '|' (the text format is ambiguous otherwise); species labels and reaction ids are disjoint when node ids are built without prefixes, and may coincide with the default prefixes or integer ids",
    "flag combinations that claim invertibility: bipartite export with include_stoich, include_edge_id_attr, include_mol, every marker pair (0,1) / (1,0) / (True,False) / ('sp','rx') / (2,3); strings with include_rule_suffix",
    "molecule labels include falsy identifiers (0, '') since assign_mol documents ints and strings as legitimate",
    "a registered species that occurs in no reaction: the statement promises the reactions, ids, rules, coefficients and molecule labels, not the species set; only those are required with such a species present (both include_isolated_species settings)",
    "species-graph round trip is only required for networks whose reactions all have both sides, and only for ids and stoichiometry",
]
RULE = {
    "quick": "every network with <=2 reactions over 3 species, coefficients {0,1,2}, one per species-permutation class (46 184), under a label scheme, coefficient scheme "
    "(incl. multi-digit 10/12), id/rule scheme and molecule-label scheme picked by a hash of the network; plus all 5 832 ordered triples of reactions cA(+X)>>dB sharing "
    "the species pair (A,B); every export flag combination; non-trivial = catalyst, repeated reaction, empty side or shared species pair present",
    "thorough": "all 266 084 labelled 2-reaction networks, all 3-reaction networks with coefficients {0,1}, 4 species x 2 reactions x {0,1}, shared-pair triples and quadruples",
}

LABELS = [["A", "B", "C", "D"], ["A", "B2", "Fe", "c3x"], ["Cl2", "H2O", "e", "X10"], ["CC(=O)O", "C=C", "A'", "CH3-CH3"]]
COEFFS = [{1: 1, 2: 2}, {1: 1, 2: 12}, {1: 3, 2: 10}]
IDSCHEMES = [
    (None, None),
    (["R1", "R2", "R1", "R2"], None),
    (["z", "y", "x", "w"], ["b9", "a1", "c5", "a0"]),
    (["k", "k", "k", "k"], ["r_2", "r_1", "k_7", "q"]),
]
MOLS = [{}, {0: "m1", 1: 0}, {0: "", 2: "CCO"}]


def gen(tier, seed):
    for net in ec.networks(3, 2, 2, quotient=(tier == "quick")):
        yield {"net": ec.net_str(net)}
    # shared species pair (A,B): lhs cA (+X), rhs dB
    fam = []
    for c in (1, 2, 3):
        for x in (None, 2, 3):
            for d in (1, 2):
                l = [c, 0, 0, 0]
                if x:
                    l[x] = 1
                fam.append((tuple(l), (0, d, 0, 0)))
    for trip in itertools.product(range(len(fam)), repeat=3):
        yield {"net": ec.net_str(tuple(fam[i] for i in trip)), "raw": True}
    if tier != "quick":
        for net in ec.networks(3, 3, 1, rmin=3):
            yield {"net": ec.net_str(net)}
        for net in ec.networks(4, 2, 1):
            yield {"net": ec.net_str(net)}
        sub = [fam[i] for i in (0, 3, 6, 9, 12, 15, 1, 4)]
        for quad in itertools.product(range(len(sub)), repeat=4):
            yield {"net": ec.net_str(tuple(sub[i] for i in quad)), "raw": True}


def canon_rx(H):
    return {eid: (e.rule, tuple(sorted(e.reactants.items())), tuple(sorted(e.products.items()))) for eid, e in H.edges.items()}


def check(case):
    from synkit.CRN.Hypergraph.hypergraph import CRNHyperGraph
    from synkit.CRN.Hypergraph import conversion as cv

    s = case["net"]
    net = ec.parse_net(s)
    h = zlib.crc32(s.encode())
    raw = case.get("raw", False)
    names = LABELS[h % 4]
    cmap = {1: 1, 2: 2, 3: 3} if raw else COEFFS[(h // 4) % 3]
    rules, ids = IDSCHEMES[(h // 12) % 4]
    mols = MOLS[(h // 48) % 3]
    H = CRNHyperGraph()
    for k, (l, r) in enumerate(net):
        H.add_rxn({names[i]: cmap[c] for i, c in enumerate(l) if c}, {names[i]: cmap[c] for i, c in enumerate(r) if c},
                  rule=(rules[k] if rules else None), edge_id=(ids[k] if ids else None))
    for i, m in mols.items():
        if names[i] in H.species:
            H.assign_mol(names[i], m)
    want = canon_rx(H)
    want_mol = dict(H.species_to_mol)
    fails = []
    n = 0
    # ---- bipartite
    for integer_ids in (False, True):
        for prefixes in ("default", None):
            for role, markers in ((True, (0, 1)), (False, (0, 1)), (True, (1, 0)), (False, (True, False)), (True, ("sp", "rx")), (False, (2, 3))):
                kw = dict(integer_ids=integer_ids, include_role=role, include_stoich=True, include_edge_id_attr=True, include_mol=True, bipartite_values=markers)
                bkw = {}
                if prefixes is None:
                    kw.update(species_prefix=None, reaction_prefix=None)
                G = cv.hypergraph_to_bipartite(H, **kw)
                H2 = cv.bipartite_to_hypergraph(G, **bkw)
                n += 1
                cfg = f"int={integer_ids},prefix={prefixes},role={role},markers={markers}"
                if canon_rx(H2) != want:
                    fails.append(Fail("bipartite_reactions", f"{cfg}: {canon_rx(H2)}", str(want), key_extra=cfg))
                elif dict(H2.species_to_mol) != want_mol or any(type(H2.species_to_mol[k]) is not type(want_mol[k]) for k in want_mol):
                    fails.append(Fail("bipartite_mol", f"{cfg}: {dict(H2.species_to_mol)}", str(want_mol), key_extra=cfg))
                elif set(H2.species) != set(H.species):
                    fails.append(Fail("bipartite_species", f"{cfg}: {sorted(H2.species)}", str(sorted(H.species)), key_extra=cfg))
    # ---- strings
    want_ms = Counter(want.values())
    for with_id in (False, True):
        for srt in (True, False):
            lines = cv.hypergraph_to_rxn_strings(H, include_rule_suffix=True, include_edge_id=with_id, sort=srt)
            H3 = cv.rxns_to_hypergraph(lines)
            n += 1
            got = Counter(canon_rx(H3).values())
            if got != want_ms:
                fails.append(Fail("strings", f"id={with_id},sort={srt}: {lines} -> {sorted(got.elements())}", str(sorted(want_ms.elements())), key_extra=f"{with_id},{srt}"))
            elif with_id and srt and H3.species:
                # the parsed network is edited in place, then the same lines are parsed again: the text decides, not the earlier object
                H3.remove_species(sorted(H3.species)[0])
                H3b = cv.rxns_to_hypergraph(lines)
                n += 1
                if Counter(canon_rx(H3b).values()) != want_ms:
                    fails.append(Fail("strings_after_editing_parsed_network", f"{lines} -> {sorted(Counter(canon_rx(H3b).values()).elements())}", str(sorted(want_ms.elements()))))
    # ---- species graph (all reactions two-sided)
    if all(any(l) and any(r) for l, r in net):
        for inc_mol in (False, True):
            S = cv.hypergraph_to_species_graph(H, include_mol=inc_mol)
            H4 = cv.species_graph_to_hypergraph(S)
            n += 1
            got = {eid: v[1:] for eid, v in canon_rx(H4).items()}
            w = {eid: v[1:] for eid, v in want.items()}
            if got != w:
                fails.append(Fail("species_graph", f"mol={inc_mol}: {got}", str(w), key_extra=str(inc_mol)))
            elif inc_mol and dict(H4.species_to_mol) != want_mol:
                fails.append(Fail("species_graph_mol", f"{dict(H4.species_to_mol)}", str(want_mol)))
    # ---- a species label that is also a reaction id (two name spaces; the prefixed and the integer node ids keep them apart)
    names2 = ["E1", "E2x", "Zq", "Yw"]
    H8 = CRNHyperGraph()
    for k, (l, r) in enumerate(net):
        H8.add_rxn({names2[i]: cmap[c] for i, c in enumerate(l) if c}, {names2[i]: cmap[c] for i, c in enumerate(r) if c}, rule="q", edge_id=f"E{k + 1}")
    for i, m in mols.items():
        if names2[i] in H8.species:
            H8.assign_mol(names2[i], m)
    want8, mol8 = canon_rx(H8), dict(H8.species_to_mol)
    for integer_ids in (False, True):
        G = cv.hypergraph_to_bipartite(H8, integer_ids=integer_ids, include_stoich=True, include_edge_id_attr=True, include_mol=True)
        H9 = cv.bipartite_to_hypergraph(G)
        n += 1
        if canon_rx(H9) != want8 or dict(H9.species_to_mol) != mol8:
            fails.append(Fail("bipartite_label_equals_edge_id", f"int={integer_ids}: {canon_rx(H9)} labels {dict(H9.species_to_mol)}", f"{want8} labels {mol8}", key_extra=str(integer_ids)))
    # ---- a registered species that occurs in no reaction (left behind by remove_species(..., prune_orphans=False))
    H6 = H.copy()
    first_sp = sorted(H.species)[-1]
    H6.add_rxn({first_sp: 1}, {"Aa0": 1}, rule="iso", edge_id="tmp_iso")
    H6.remove_species("Aa0", prune_orphans=False)  # strips Aa0 from tmp_iso and leaves it registered
    want_iso = dict(want)
    want_iso["tmp_iso"] = ("iso", ((first_sp, 1),), ())
    if "Aa0" in H6.species and canon_rx(H6) == want_iso:
        want, want_keep = want_iso, want
        for integer_ids in (False, True):
            for keep in (True, False):
                G = cv.hypergraph_to_bipartite(H6, integer_ids=integer_ids, include_isolated_species=keep, include_stoich=True, include_edge_id_attr=True, include_mol=True)
                H7 = cv.bipartite_to_hypergraph(G)
                n += 1
                cfg = f"int={integer_ids},isolated_kept={keep}"
                if canon_rx(H7) != want or dict(H7.species_to_mol) != want_mol:
                    fails.append(Fail("bipartite_with_isolated_species", f"{cfg}: {canon_rx(H7)} labels {dict(H7.species_to_mol)}", f"{want} labels {want_mol}", key_extra=cfg))
        want = want_keep
    # ---- the view objects the analysis classes hand out (built lazily per object): taken, the network edited with the same numbers of
    # species and reactions (first reaction reversed under its id), taken again through a new object
    from synkit.CRN.Topo.canon import CRNCanonicalizer

    e0 = sorted(H.edges)[0]
    for integer_ids in (False, True):
        for stage in ("first", "after_edit"):
            G = CRNCanonicalizer(H, include_rule=True, integer_ids=integer_ids).G
            H5 = cv.bipartite_to_hypergraph(G)
            n += 1
            if Counter(canon_rx(H5).values()) != Counter(canon_rx(H).values()):  # this view does not carry the ids
                fails.append(Fail("view_object", f"int={integer_ids} {stage}: {sorted(canon_rx(H5).values())}", str(sorted(canon_rx(H).values())), key_extra=f"{integer_ids},{stage}"))
                break
            if stage == "first":
                e = H.edges[e0]
                l0, r0, rule0 = dict(e.reactants), dict(e.products), e.rule
                H.remove_rxn(e0)
                H.add_rxn(r0, l0, rule=rule0, edge_id=e0)
    feats = []
    if any(any(a and b for a, b in zip(l, r)) for l, r in net):
        feats.append("cat")
    if len(set(net)) < len(net):
        feats.append("rep")
    if any(not any(l) or not any(r) for l, r in net):
        feats.append("empty")
    pairs = Counter((i, j) for l, r in net for i, a in enumerate(l) if a for j, b in enumerate(r) if b)
    if any(v > 1 for v in pairs.values()):
        feats.append("shared")
    return Outcome(nontrivial=bool(feats), outcome="+".join(feats) or "plain", fails=fails, transitions=n)


def subchecks(tier, seed):
    return [Sub("networks", gen, check, key=lambda c: c["net"], rule=RULE[tier])]


def run(tier, seed):
    acc = run_subs(subchecks(tier, seed), tier, seed)
    return acc, True, {}
