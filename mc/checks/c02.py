"""C02 — reaction centre = changed bonds (+H-H); context grows monotonically (E1)."""
from __future__ import annotations

import copy

from mc import enum_rxn as er
from mc import its_family as fam
from mc import ref_match as rm
from mc.core import Fail, Outcome, Sub, run_subs
from mc.checks.c01 import centre_maps, strip_nb

PROPERTY = "C02"
ASSUMPTIONS = [
    "synthetic ITS graphs are built by ITSConstruction from the (G,H) pairs of C01 plus a family with explicit hydrogen atoms and H-H bonds (changed and unchanged)",
    "distance oracle: own breadth-first search in the ITS graph",
    "renumbering yields an isomorphic centre: decided by ref_match on (typesGH without neighbour lists; order pair)",
    "every extraction is also repeated on derived objects (copy, relabelled copy, in-place edited copy) so that state left on an ITS graph by an earlier extraction cannot leak",
]
RULE = {
    "quick": "the synthetic ITS graphs of C01 (80 315) + 1 458 H-containing ITS graphs, each with radii 0..3; every balanced corpus reaction and the stored ITS graphs of graph.pkl / hydrogen_test.pkl, "
    "each under the renumbering variants; extraction repeated on copies / relabelled copies / edited copies of an ITS that was already queried; non-trivial = centre non-empty",
    "thorough": "thorough families of C01",
}


def hh_family():
    """ITS graphs with explicit hydrogens: H-H bonds changed / unchanged, X-H bonds"""
    import itertools

    out = []
    # nodes: 1:C 2:H 3:H 4:O ; edges among them with (G,H) orders
    pairs = [(1, 2), (2, 3), (3, 4), (1, 4), (1, 3), (2, 4)]
    opts = [(0.0, 0.0), (1.0, 1.0), (1.0, 0.0), (0.0, 1.0)]
    for combo in itertools.product(range(4), repeat=len(pairs)):
        if sum(1 for c in combo if c) > 4 or combo[1] == 0 and sum(combo) % 3:
            continue
        out.append({"hh": list(combo)})
    return out, pairs, opts


def build_hh(case):
    import networkx as nx
    from synkit.Graph.ITS.its_construction import ITSConstruction

    _, pairs, opts = hh_family()
    el = {1: "C", 2: "H", 3: "H", 4: "O"}
    G, H = nx.Graph(), nx.Graph()
    for g in (G, H):
        for v, e in el.items():
            g.add_node(v, element=e, aromatic=False, hcount=0, charge=0, atom_map=v, neighbors=[])
    for (u, v), c in zip(pairs, case["hh"]):
        og, oh = opts[c]
        if og:
            G.add_edge(u, v, order=og)
        if oh:
            H.add_edge(u, v, order=oh)
    return ITSConstruction().ITSGraph(G, H)


def bfs_dist(G, sources):
    dist = {s: 0 for s in sources}
    frontier = list(sources)
    while frontier:
        nxt = []
        for u in frontier:
            for v in G._adj[u]:
                if v not in dist:
                    dist[v] = dist[u] + 1
                    nxt.append(v)
        frontier = nxt
    return dist


def judge(its, fails, ctx, radii=(0, 1, 2, 3), min_delta=None):
    """min_delta: for an ITS built with ignore_aromaticity=True a bond counts as changed when its order changes by at least one"""
    from synkit.Graph.ITS.its_decompose import get_rc
    from synkit.Graph.Context.radius_expand import RadiusExpand

    snapshot = (sorted(its.nodes), sorted(map(sorted, its.edges)))
    rc = get_rc(its)
    want_e = set()
    for u, v, d in its.edges(data=True):
        og, oh = d["order"]
        hh = its.nodes[u].get("element") == "H" and its.nodes[v].get("element") == "H"
        if (og != oh if min_delta is None else abs(og - oh) >= min_delta) or hh:
            want_e.add(frozenset((u, v)))
    want_n = {x for e in want_e for x in e}
    got_e = {frozenset(e) for e in rc.edges}
    if got_e != want_e:
        fails.append(Fail("centre_bonds", f"{ctx}: {sorted(map(sorted, got_e))}", f"{sorted(map(sorted, want_e))}"))
        return None
    if set(rc.nodes) != want_n:
        fails.append(Fail("centre_atoms", f"{ctx}: {sorted(rc.nodes)}", f"{sorted(want_n)}"))
        return None
    for v in rc.nodes:
        for k in ("element", "charge", "typesGH", "atom_map"):
            if k in its.nodes[v] and rc.nodes[v].get(k) != its.nodes[v][k]:
                fails.append(Fail("centre_labels", f"{ctx}: node {v} {k}={rc.nodes[v].get(k)!r}", f"{its.nodes[v][k]!r}"))
                return None
    for u, v in rc.edges:
        if tuple(rc[u][v].get("order")) != tuple(its[u][v]["order"]) or rc[u][v].get("standard_order") != its[u][v].get("standard_order"):
            fails.append(Fail("centre_bond_labels", f"{ctx}: edge {(u, v)} {rc[u][v]}", f"{its[u][v]}"))
            return None
    rc2 = get_rc(rc)
    same = set(rc2.nodes) == set(rc.nodes) and {frozenset(e) for e in rc2.edges} == got_e
    same = same and all(rc2.nodes[v].get("typesGH") == rc.nodes[v].get("typesGH") for v in rc.nodes) if same else False
    same = same and all(tuple(rc2[u][v]["order"]) == tuple(rc[u][v]["order"]) and rc2[u][v]["standard_order"] == rc[u][v]["standard_order"] for u, v in rc.edges) if same else False
    if not same:
        fails.append(Fail("centre_not_idempotent", f"{ctx}: centre of the centre differs", "unchanged"))
        return None
    # contexts
    dist = bfs_dist(its, sorted(want_n))
    prev_n, prev_e = set(rc.nodes), got_e
    for k in radii:
        K = RadiusExpand.extract_k(its, k)
        wn = {v for v, d in dist.items() if d <= k} if want_n else set()
        if k == 0:
            ok = set(K.nodes) == set(rc.nodes) and {frozenset(e) for e in K.edges} == got_e
            if not ok:
                fails.append(Fail("context0_not_centre", f"{ctx}: nodes {sorted(K.nodes)}", f"{sorted(rc.nodes)}"))
                return None
            continue
        ke = {frozenset(e) for e in K.edges}
        we = {frozenset((u, v)) for u, v in its.edges if u in wn and v in wn}
        if set(K.nodes) != wn or ke != we:
            fails.append(Fail("context_radius", f"{ctx}: k={k} nodes {sorted(K.nodes)} edges {len(ke)}", f"nodes {sorted(wn)} edges {len(we)} (atoms within {k} bonds, induced)"))
            return None
        if not (prev_n <= set(K.nodes) and prev_e <= ke and set(K.nodes) <= set(its.nodes)):
            fails.append(Fail("context_not_monotone", f"{ctx}: k={k}", "centre within context(1) within context(2) within the ITS"))
            return None
        prev_n, prev_e = set(K.nodes), ke
    # the record-level interface asked for several radii of one record: every result keeps its own context
    rec = {"ITS": its}
    outs = [(k, RadiusExpand.context_extraction(rec, its_key="ITS", context_key="K", n_knn=k)) for k in radii[:3]]
    for k, o in outs:
        K = RadiusExpand.extract_k(its, k)
        got = o.get("K") if isinstance(o, dict) else None
        if got is None or set(got.nodes) != set(K.nodes) or {frozenset(e) for e in got.edges} != {frozenset(e) for e in K.edges}:
            fails.append(Fail("context_record", f"{ctx}: the record returned for radius {k} holds {sorted(got.nodes) if got is not None else None} after radii {[r for r, _ in outs]} were asked", f"{sorted(K.nodes)}"))
            return None
    if (sorted(its.nodes), sorted(map(sorted, its.edges))) != snapshot:
        fails.append(Fail("its_modified", f"{ctx}: extraction changed the ITS", "unchanged"))
        return None
    return rc


def derived(its):
    """new ITS objects derived from an already queried one; each must be analysed as what it now is"""
    import networkx as nx

    yield "copy", its.copy()
    yield "deepcopy", copy.deepcopy(its)
    m = {v: v + 100 for v in its.nodes}
    r = nx.relabel_nodes(its, m, copy=True)
    for v in r.nodes:
        if "atom_map" in r.nodes[v]:
            r.nodes[v]["atom_map"] = v
    yield "relabelled", r
    e = its.copy()
    es = sorted(e.edges)
    if es:
        u, v = es[0]
        og, oh = e[u][v]["order"]
        e[u][v]["order"] = (og, og + 1.0 if og == oh else og)  # toggles whether this bond is a changed bond
        e[u][v]["standard_order"] = e[u][v]["order"][0] - e[u][v]["order"][1]
        yield "edited_copy", e


def check_its(its, ctx0):
    fails = []
    n = 0
    rc = judge(its, fails, ctx0)
    n += 5
    if rc is not None:
        for tag, d in derived(its):
            judge(d, fails, f"{ctx0}/{tag}", radii=(0, 1))
            n += 3
            if fails:
                break
    return fails, n, rc


def check_syn(case):
    from synkit.Graph.ITS.its_construction import ITSConstruction

    if "hh" in case:
        its = build_hh(case)
    else:
        G, H = fam.build(case)
        if None in case["gl"] or None in case["hl"]:
            return Outcome(skipped="one_sided_nodes")
        its = ITSConstruction().ITSGraph(G, H)
        its_ia = ITSConstruction().ITSGraph(G, H, ignore_aromaticity=True)
        f0 = []
        judge(its_ia, f0, "synthetic/ignore_aromaticity", radii=(0, 1), min_delta=1)
        if f0:
            return Outcome(nontrivial=True, outcome=f"n{case['n']}", fails=f0, transitions=2)
    fails, n, rc = check_its(its, "synthetic")
    return Outcome(nontrivial=bool(rc is not None and rc.number_of_nodes()), outcome="hh" if "hh" in case else f"n{case['n']}", fails=fails, transitions=n)


def gen_syn(tier, seed):
    yield from fam.pairs(tier)
    yield from hh_family()[0]


def gen_corpus(tier, seed):
    for rid, s in er.corpus_reactions():
        if er.is_balanced(s) and er.fully_mapped_bijective(s):
            yield [rid, s, None]
    for name in ("graph", "hydro"):
        for i, d in enumerate(er.corpus(name)):
            yield [d["id"] + "/ITS", None, [name, i]]


TIER = ["quick"]
SEED = [0]


def check_corpus(case):
    from synkit.IO.chem_converter import rsmi_to_its

    rid, s, stored = case
    fails = []
    n = 0
    if stored:
        its = er.corpus(stored[0])[stored[1]]["ITS"]
        f, k, rc = check_its(copy.deepcopy(its), "stored")
        return Outcome(nontrivial=bool(rc is not None and rc.number_of_nodes()), outcome="stored", fails=f, transitions=k)
    base_rc = None
    for tag, v in er.variants(s, centre_maps(s), TIER[0], SEED[0]):
        if tag == "reverse":
            continue
        its = rsmi_to_its(v)
        if tag == "identity":
            from synkit.IO.chem_converter import rsmi_to_graph
            from synkit.Graph.ITS.its_construction import ITSConstruction

            G0, H0 = rsmi_to_graph(v)
            judge(ITSConstruction().ITSGraph(G0, H0, ignore_aromaticity=True), fails, "identity/ignore_aromaticity", radii=(0, 1), min_delta=1)
            n += 2
            if fails:
                break
        f, k, rc = check_its(its, tag)
        n += k
        fails += f
        if fails:
            break
        if base_rc is None:
            base_rc = rc
        elif not rm.isomorphic(base_rc, rc, lambda a, b: strip_nb(a["typesGH"]) == strip_nb(b["typesGH"]), lambda a, b: tuple(a["order"]) == tuple(b["order"])):
            fails.append(Fail("centre_not_isomorphic_after_renumbering", f"{tag}", "isomorphic centre", key_extra=tag))
            break
    return Outcome(nontrivial=bool(base_rc is not None and base_rc.number_of_nodes()), outcome="rxn", fails=fails, transitions=n)


def subchecks(tier, seed):
    TIER[0], SEED[0] = tier, seed
    return [
        Sub("synthetic", gen_syn, check_syn, key=lambda c: str(c.get("hh")) if "hh" in c else f"n{c['n']}:{c['gl']}/{c['hl']}/{c['ge']}/{c['he']}", rule=RULE[tier]),
        Sub("corpus", gen_corpus, check_corpus, key=lambda c: c[0], rule=RULE[tier]),
    ]


def run(tier, seed):
    acc = run_subs(subchecks(tier, seed), tier, seed)
    return acc, True, {}
