"""C12 — maximum common subgraph results are valid and of maximum size (E1)."""
from __future__ import annotations

import itertools

from mc import enum_graphs as eg
from mc import ref_match as rm
from mc.core import Fail, Outcome, Sub, run_subs

PROPERTY = "C12"
ASSUMPTIONS = [
    "alphabet: elements {C,O} (plus the wildcard '*' in the pruning family), bond orders {1,2}; disconnected graphs included; node ids of the two graphs are disjoint so that a wrong direction is visible",
    "label renderings: one selected node label (element); two selected labels (element, charge) with atoms equal in the first and different in the second; bond orders as numbers, as (before, after) tuples and as names "
    "(Graph/Matcher only: the MTG matcher documents scalar orders)",
    "oracle: every common induced subgraph mapping by brute force (all k-subsets of the smaller graph x all injections), maximum size from it",
    "without automorphism pruning the result set must equal the oracle's set; with pruning it must be a valid subset containing at least one maximum mapping",
]
RULE = {
    "quick": "class representatives n<=3 x all labelled graphs n<=3 over 2 elements x 2 bond orders, both argument orders; Graph/Matcher MCSMatcher (mcs on/off, prune_automorphisms on/off, "
    "mcs_mol, three direction accessors) and Graph/MTG MCSMatcher (mcs on/off, mcs_mol); wildcard family (labels C,O,*; single bonds) with prune_wc; non-trivial = a common subgraph with >=2 atoms exists",
    "thorough": "quick + representatives n=4 (<=4 bonds) x labelled n<=3, both argument orders, and n=4 x n=4 representatives",
}

VATTR = [{"element": "C"}, {"element": "O"}, {"element": "*"}]
EATTR = [{"order": 1.0}, {"order": 2.0}]
# other renderings of the same label alphabets: which attributes are "the selected node labels" and what a bond order looks like
SCHEMES = {
    "plain": (VATTR, EATTR, ["element"]),
    "wc": (VATTR, EATTR, ["element"]),
    # two selected node labels; atoms that agree in the first and differ in the second
    "charge": ([{"element": "O", "charge": 0}, {"element": "O", "charge": -1}, {"element": "C", "charge": 0}], EATTR, ["element", "charge"]),
    # ITS-style (before, after) bond orders and bond-type names: orders that are not numbers
    "tuple": (VATTR, [{"order": (1.0, 2.0)}, {"order": (2.0, 1.0)}], ["element"]),
    "string": (VATTR, [{"order": "SINGLE"}, {"order": "DOUBLE"}], ["element"]),
    # label selections that leave the element out: nothing selected (skeleton only), charge only
    # a selected label left out where it has its declared default (G2 omits charge 0, G1 writes it)
    "sparse_charge": ([{"element": "O", "charge": 0}, {"element": "O", "charge": -1}, {"element": "C", "charge": 0}], EATTR, ["element", "charge"]),
    "skeleton": (VATTR, EATTR, []),
    "charge_only": ([{"element": "O", "charge": 0}, {"element": "N", "charge": 0}, {"element": "C", "charge": 1}], EATTR, ["charge"]),
}
NODE_ATTRS = [["element"]]


def gen(tier, seed):
    reps = [c for n in (1, 2, 3) for c in eg.representatives(n, 2, 2)]
    lab = [c for n in (1, 2, 3) for c in eg.all_labelled(n, 2, 2)]
    for a in reps:
        for b in lab:
            yield [eg.code_str(a), eg.code_str(b), "plain"]
            if len(a[0]) != len(b[0]):
                yield [eg.code_str(b), eg.code_str(a), "plain"]
    if tier != "quick":
        reps4 = [c for c in eg.representatives(4, 2, 2) if eg.n_edges(c) <= 4]
        for a in reps4:
            for b in lab:
                yield [eg.code_str(a), eg.code_str(b), "plain"]
                yield [eg.code_str(b), eg.code_str(a), "plain"]
        for a in reps4:
            for b in reps4:
                yield [eg.code_str(a), eg.code_str(b), "plain"]


def gen_schemes(tier, seed):
    """the other label renderings: 3 node labels x 1 bond label under 'charge'; 2 x 2 under 'tuple' / 'string'"""
    reps = [c for n in (2, 3) for c in eg.representatives(n, 3, 1)]
    lab = [c for n in (1, 2, 3) for c in eg.all_labelled(n, 3, 1)]
    for a in reps:
        for b in lab:
            yield [eg.code_str(a), eg.code_str(b), "charge"]
            if len(a[0]) != len(b[0]):
                yield [eg.code_str(b), eg.code_str(a), "charge"]
    reps = [c for n in (2, 3) for c in eg.representatives(n, 3, 1)]
    lab = [c for n in (2, 3) for c in eg.all_labelled(n, 3, 1)]
    for a in reps:
        for b in lab:
            yield [eg.code_str(a), eg.code_str(b), "charge_only"]
            yield [eg.code_str(a), eg.code_str(b), "sparse_charge"]
            if len(a[0]) != len(b[0]):
                yield [eg.code_str(b), eg.code_str(a), "sparse_charge"]
    reps = [c for n in (2, 3) for c in eg.representatives(n, 2, 2) if eg.n_edges(c) >= 1]
    lab = [c for n in (2, 3) for c in eg.all_labelled(n, 2, 2) if eg.n_edges(c) >= 1]
    for a in reps:
        for b in lab:
            yield [eg.code_str(a), eg.code_str(b), "skeleton"]
    for i, a in enumerate(reps):
        for b in lab:
            yield [eg.code_str(a), eg.code_str(b), "tuple" if (i % 2 == 0 or tier != "quick") else "string"]
            if tier != "quick":
                yield [eg.code_str(a), eg.code_str(b), "string"]


def gen_wc(tier, seed):
    reps = [c for n in (1, 2, 3) for c in eg.representatives(n, 3, 1)]
    lab = [c for n in (1, 2, 3) for c in eg.all_labelled(n, 3, 1)]
    for a in reps:
        if 2 not in a[0]:
            continue
        for b in lab:
            yield [eg.code_str(a), eg.code_str(b), "wc"]
            yield [eg.code_str(b), eg.code_str(a), "wc"]


DEFAULTS = {"element": "*", "charge": 0}


def node_ok(p, h):
    return all(p.get(a, DEFAULTS.get(a)) == h.get(a, DEFAULTS.get(a)) for a in NODE_ATTRS[0])


def edge_ok(p, h):
    return p["order"] == h["order"]


def all_common(P, H):
    """every common induced subgraph mapping P-subset -> H, all sizes >= 1"""
    out = set()
    nodes = list(P.nodes)
    for k in range(1, min(len(nodes), H.number_of_nodes()) + 1):
        for sub in itertools.combinations(nodes, k):
            sp = P.subgraph(sub)
            for m in rm.morphisms(sp, H, node_ok, edge_ok, induced=True):
                out.add(tuple(sorted(m.items())))
    return out


def valid(m, A, B):
    """m maps nodes of A to nodes of B: injective, labels, induced both ways"""
    if not set(m) <= set(A.nodes) or not set(m.values()) <= set(B.nodes) or len(set(m.values())) != len(m):
        return False
    for a, b in m.items():
        if not node_ok(A.nodes[a], B.nodes[b]):
            return False
    for u, v in itertools.combinations(list(m), 2):
        ea, eb = A.has_edge(u, v), B.has_edge(m[u], m[v])
        if ea != eb or (ea and not edge_ok(A[u][v], B[m[u]][m[v]])):
            return False
    return True


def prune(G):
    keep = [n for n, d in G.nodes(data=True) if d["element"] != "*"]
    return G.subgraph(keep).copy()


def check(case):
    from synkit.Graph.Matcher.mcs_matcher import MCSMatcher as M1
    from synkit.Graph.MTG.mcs_matcher import MCSMatcher as M2

    sa, sb, kind = case
    ca, cb = eg.parse_code(sa), eg.parse_code(sb)
    vattr, eattr, nattrs = SCHEMES[kind]
    NODE_ATTRS[0] = nattrs
    G1 = eg.to_nx(ca, vattr, eattr, node_ids=list(range(1, len(ca[0]) + 1)))
    G2 = eg.to_nx(cb, vattr, eattr, node_ids=list(range(11, len(cb[0]) + 11)))
    if kind == "sparse_charge":
        for v in G2.nodes:
            if G2.nodes[v].get("charge") == 0:
                del G2.nodes[v]["charge"]
    wc = kind == "wc"
    P1, P2 = (prune(G1), prune(G2)) if wc else (G1, G2)
    fails = []
    ncalls = 0
    # oracle in G1 -> G2 orientation
    if P1.number_of_nodes() <= P2.number_of_nodes():
        allm = all_common(P1, P2)
    else:
        allm = {tuple(sorted((b, a) for a, b in m)) for m in all_common(P2, P1)}  # invert to G1->G2
    K = max((len(m) for m in allm), default=0)
    maxm = {m for m in allm if len(m) == K}
    for mcs in (True, False):
        for pa in (False, True):
            mt = M1(node_attrs=list(nattrs), node_defaults=[DEFAULTS.get(a, "*") for a in nattrs], edge_attrs=["order"], prune_wc=wc, prune_automorphisms=pa)
            mt.find_common_subgraph(G1, G2, mcs=mcs)
            ncalls += 1
            f = mt.get_mappings("G1_to_G2")
            b = mt.get_mappings("G2_to_G1")
            ph = mt.get_mappings("pattern_to_host")
            key = f"M1,mcs={mcs},prune={pa}"
            fset = {tuple(sorted(m.items())) for m in f}
            bad = [m for m in f if not valid(m, P1, P2)]
            if bad:
                fails.append(Fail("invalid_mapping", f"{key}: G1_to_G2 {bad[0]}", "valid common induced subgraph mapping G1->G2", key_extra=key))
                continue
            if len(b) != len(f) or any({v: k for k, v in m.items()} != n for m, n in zip(f, b)):
                fails.append(Fail("directions_not_inverse", f"{key}: {f[:2]} vs {b[:2]}", "element-wise mutual inverses", key_extra=key))
            if [tuple(sorted(m.items())) for m in ph] not in ([tuple(sorted(m.items())) for m in f], [tuple(sorted(m.items())) for m in b]):
                fails.append(Fail("pattern_to_host_inconsistent", f"{key}", "equals one of the two oriented lists", key_extra=key))
            if mcs:
                if any(len(m) != K for m in f) or (K > 0 and not f):
                    fails.append(Fail("not_maximum", f"{key}: sizes {sorted({len(m) for m in f})}", f"all of size {K}", key_extra=key))
                elif not pa and fset != maxm:
                    fails.append(Fail("maximum_set", f"{key}: {sorted(fset)}", f"{sorted(maxm)}", key_extra=key))
                elif pa and not (fset <= maxm and (fset or not maxm)):
                    fails.append(Fail("maximum_set_pruned", f"{key}: {sorted(fset)}", f"non-empty subset of {sorted(maxm)}", key_extra=key))
            else:
                if not pa and fset != allm:
                    fails.append(Fail("common_set", f"{key}: {len(fset)} mappings", f"{len(allm)} common subgraph mappings", key_extra=key))
                elif pa and not fset <= allm:
                    fails.append(Fail("common_set_pruned", f"{key}", "subset of the common subgraph mappings", key_extra=key))
            if mt._last_size != (K if (mcs or f) else 0) and mcs:
                fails.append(Fail("last_size", f"{key}: {mt._last_size}", str(K), key_extra=key))
    # one matcher object reused for another pair first, and the same graph object on both sides
    mt = M1(node_attrs=list(nattrs), node_defaults=[DEFAULTS.get(a, "*") for a in nattrs], edge_attrs=["order"], prune_wc=wc)
    mt.find_common_subgraph(G2, G2, mcs=True)
    same = mt.get_mappings("G1_to_G2")
    ncalls += 1
    if P2.number_of_nodes() and not any(all(k == v for k, v in m.items()) and len(m) == P2.number_of_nodes() for m in same):
        fails.append(Fail("same_object_pair", f"M1(G2,G2): {same[:2]}", "contains the identity on all (non-wildcard) atoms"))
    mt.find_common_subgraph(G1, G2, mcs=True)
    ncalls += 1
    reused = {tuple(sorted(m.items())) for m in mt.get_mappings("G1_to_G2")}
    if reused != maxm:
        fails.append(Fail("matcher_reuse", f"M1 reused after another pair: {sorted(reused)}", f"{sorted(maxm)}"))
    # find_rc_mapping on graphs given directly (side='its'): component-wise pairing and whole-graph search, on a reused instance
    if not wc:
        mt = M1(node_attrs=list(nattrs), node_defaults=[DEFAULTS.get(a, "*") for a in nattrs], edge_attrs=["order"])
        mt.find_common_subgraph(G2, G1, mcs=True)
        mt.get_mappings("G1_to_G2"), mt.get_mappings("G2_to_G1")  # fill whatever the instance may keep
        for comp in (True, False):
            for mcs in (True, False):
                mt.find_rc_mapping(G1, G2, side="its", mcs=mcs, component=comp)
                ncalls += 1
                f = mt.get_mappings("G1_to_G2")
                b = mt.get_mappings("G2_to_G1")
                key = f"find_rc_mapping,component={comp},mcs={mcs}"
                bad = [m for m in f if not valid(m, G1, G2)]
                if bad:
                    fails.append(Fail("invalid_mapping", f"{key}: G1_to_G2 {bad[0]}", "valid common induced subgraph mapping G1->G2", key_extra=key))
                elif len(b) != len(f) or any({v: k for k, v in m.items()} != n for m, n in zip(f, b)):
                    fails.append(Fail("directions_not_inverse", f"{key}: {f[:2]} vs {b[:2]}", "element-wise mutual inverses", key_extra=key))
                elif not comp and mcs and {tuple(sorted(m.items())) for m in f} != maxm:
                    fails.append(Fail("maximum_set", f"{key}: {sorted(tuple(sorted(m.items())) for m in f)}", f"{sorted(maxm)}", key_extra=key))
    # molecule-level mode: whole components
    mt = M1(node_attrs=list(nattrs), node_defaults=[DEFAULTS.get(a, "*") for a in nattrs], edge_attrs=["order"], prune_wc=wc)
    mt.find_common_subgraph(G1, G2, mcs_mol=True)
    ncalls += 1
    for m in mt.get_mappings("G1_to_G2"):
        if not valid(m, P1, P2):
            fails.append(Fail("invalid_mapping_mol", f"M1 mcs_mol: {m}", "valid mapping G1->G2"))
    if kind in ("plain", "charge"):  # the MTG matcher documents scalar bond orders only
        # MTG variant: G1 is the pattern, G2 the host, mappings G1 -> G2
        allm2 = all_common(G1, G2)
        K2 = max((len(m) for m in allm2), default=0)
        for mcs in (True, False):
            m2 = M2(node_label_names=list(nattrs), edge_attribute="order")
            m2.find_common_subgraph(G1, G2, mcs=mcs)
            ncalls += 1
            res = m2.get_mappings()
            key = f"M2,mcs={mcs}"
            rset = {tuple(sorted(m.items())) for m in res}
            bad = [m for m in res if not valid(m, G1, G2)]
            if bad:
                fails.append(Fail("invalid_mapping", f"{key}: {bad[0]}", "valid mapping G1->G2", key_extra=key))
            elif mcs and rset != {m for m in allm2 if len(m) == K2}:
                fails.append(Fail("maximum_set", f"{key}: {sorted(rset)}", f"maximum mappings of size {K2}", key_extra=key))
            elif not mcs and rset != allm2:
                fails.append(Fail("common_set", f"{key}: {len(rset)}", f"{len(allm2)}", key_extra=key))
            elif mcs and m2.last_size != K2:
                fails.append(Fail("last_size", f"{key}: {m2.last_size}", str(K2), key_extra=key))
        m2 = M2(node_label_names=list(nattrs), edge_attribute="order")
        m2.find_common_subgraph(G1, G2, mcs_mol=True)
        ncalls += 1
        for m in m2.get_mappings():
            if not valid(m, G1, G2):
                fails.append(Fail("invalid_mapping_mol", f"M2 mcs_mol: {m}", "valid mapping G1->G2"))
    return Outcome(nontrivial=K >= 2, outcome=f"K{K}", fails=fails, transitions=ncalls)


def subchecks(tier, seed):
    return [
        Sub("pairs", gen, check, key=lambda c: f"{c[0]}~{c[1]}", rule=RULE[tier]),
        Sub("wildcard_pairs", gen_wc, check, key=lambda c: f"{c[0]}~{c[1]}", rule=RULE[tier]),
        Sub("label_schemes", gen_schemes, check, key=lambda c: f"{c[2]}:{c[0]}~{c[1]}", rule="the same enumeration with two selected node labels (element, charge: 3 label values, atoms equal in element and different in charge) "
            "and with bond orders that are not numbers ((before, after) tuples, bond-type names)"),
    ]


def run(tier, seed):
    acc = run_subs(subchecks(tier, seed), tier, seed)
    return acc, True, {}
