"""Self-tests of the oracles on hand cases + validation of committed JSON.  Run by MANIFEST.setup_cmd."""
import json, os, sys
import networkx as nx
from mc import ref_match as rm, enum_graphs as eg

def main():
    eq = rm.attr_eq(["l"])
    P = nx.path_graph(3); C = nx.cycle_graph(4)
    for G in (P, C):
        nx.set_node_attributes(G, 0, "l"); nx.set_edge_attributes(G, 1, "l")
    assert len(rm.automorphisms(P, eq, eq)) == 2
    assert len(rm.automorphisms(C, eq, eq)) == 8
    assert len(list(rm.morphisms(P, C, eq, eq))) == 8
    assert len(list(rm.morphisms(P, C, eq, eq, induced=True))) == 8
    T = nx.complete_graph(3); nx.set_node_attributes(T, 0, "l"); nx.set_edge_attributes(T, 1, "l")
    assert len(list(rm.morphisms(P, T, eq, eq))) == 6 and len(list(rm.morphisms(P, T, eq, eq, induced=True))) == 0
    assert [sorted(o) for o in rm.orbits(P, rm.automorphisms(P, eq, eq))] == [[0, 2], [1]]
    D = nx.DiGraph([(0, 1), (1, 2)]); nx.set_node_attributes(D, 0, "l"); nx.set_edge_attributes(D, 1, "l")
    assert len(rm.automorphisms(D, eq, eq)) == 1
    # class counts: unlabelled simple graphs on 4 nodes = 11, on 3 nodes = 4
    assert sum(1 for _ in eg.representatives(4, 1, 1)) == 11
    assert sum(1 for _ in eg.representatives(3, 1, 1)) == 4
    assert sum(1 for _ in eg.representatives(4, 1, 1, connected_only=True)) == 6
    assert sum(1 for _ in eg.all_labelled(3, 2, 2)) == 8 * 27
    # every labelled graph is a permutation of exactly one representative
    reps = set(eg.representatives(3, 2, 2))
    import itertools
    for code in eg.all_labelled(3, 2, 2):
        hits = {eg.permute(code, p) for p in itertools.permutations(range(3))} & reps
        assert len(hits) == 1, code
    try:
        from mc import ref_linalg
        ref_linalg.selftest()
    except ImportError:
        pass
    # exploration engine: the chooser enumerates exactly the executions within the deviation bound
    from mc.seams import explore, VirtualExecutor

    def toy(ch):
        return tuple(ch.choose(2) for _ in range(4))

    res, complete = explore(toy, 1, max_exec=100)
    assert complete and sorted(r for _, r in res) == sorted({(0, 0, 0, 0), (1, 0, 0, 0), (0, 1, 0, 0), (0, 0, 1, 0), (0, 0, 0, 1)}), res
    res, complete = explore(toy, 4, max_exec=100)
    assert complete and len({r for _, r in res}) == 16
    with VirtualExecutor(max_workers=3) as ex:
        assert list(ex.map(abs, [-1, 2, -3])) == [1, 2, 3]
    # every finding names a property of the list and either one sub-check tag or a list of tags
    kf = os.path.join(os.path.dirname(os.path.dirname(os.path.abspath(__file__))), "known_findings.json")
    if os.path.exists(kf):
        d = json.load(open(kf))
        assert isinstance(d.get("findings", []), list) and isinstance(d.get("fixed", []), list)
        for f in d["findings"]:
            assert f.get("property", "").startswith("C") and (("sub" in f) != ("subs" in f)) and ("key" in f or "key_prefix" in f), f
        for f in d["fixed"]:
            assert f.startswith("fixed: property=C"), f
    print("selftest ok")

if __name__ == "__main__":
    main()
