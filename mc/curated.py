"""Hand-written small mapped reactions with all centre hydrogens explicit (explicit-H mode), covering mechanisms the
corpora lack: one donor to two acceptors, two independent hydrogen transfers, symmetric free fragments, fragments whose
atoms differ only by hydrogen count, spectator hydrogens on centre atoms."""

CURATED = {
    "hbr_propene": "[CH3:1][C:2]([H:6])=[C:3]([H:7])[H:8].[H:4][Br:5]>>[CH3:1][C:2]([H:6])([Br:5])[C:3]([H:7])([H:8])[H:4]",
    "h2o_propene": "[CH3:1][C:2]([H:7])=[C:3]([H:8])[H:9].[O:4]([H:5])[H:6]>>[CH3:1][C:2]([H:7])([O:4][H:6])[C:3]([H:8])([H:9])[H:5]",
    "acetal_hydrolysis": "[CH3:1][C:2]([H:3])([O:4][CH3:5])[O:6][CH3:7].[O:8]([H:9])[H:10]>>[CH3:1][C:2]([H:3])=[O:8].[CH3:5][O:4][H:9].[CH3:7][O:6][H:10]",
    "double_tautomer": "[C:1]([H:8])([H:9])([H:10])[C:2](=[N:3][H:11])[C:4]([H:12])([H:13])[C:5]([H:14])=[O:6]>>[C:1]([H:9])([H:10])=[C:2]([N:3]([H:11])[H:8])[C:4]([H:13])=[C:5]([H:14])[O:6][H:12]",
    "double_methylation": "[CH3:1][N:2]([H:3])[H:4].[C:5]([H:9])([H:10])([H:11])[I:6].[C:7]([H:12])([H:13])([H:14])[I:8]>>[CH3:1][N:2]([C:5]([H:9])([H:10])[H:11])[C:7]([H:12])([H:13])[H:14].[H:3][I:6].[H:4][I:8]",
    "esterification": "[CH3:1][C:2](=[O:3])[O:4][H:7].[CH3:5][O:6][H:8]>>[CH3:1][C:2](=[O:3])[O:6][CH3:5].[H:7][O:4][H:8]",
    "diels_alder": "[C:1]([H:7])([H:8])=[C:2]([H:9])[C:3]([H:10])=[C:4]([H:11])[H:12].[C:5]([H:13])([H:14])=[C:6]([H:15])[H:16]>>[C:1]1([H:7])([H:8])[C:2]([H:9])=[C:3]([H:10])[C:4]([H:11])([H:12])[C:6]([H:15])([H:16])[C:5]1([H:13])[H:14]",
    "diels_alder_subst": "[C:1]([H:7])([H:8])=[C:2]([CH3:17])[C:3]([H:10])=[C:4]([H:11])[H:12].[C:5]([H:13])([H:14])=[C:6]([H:15])[C:16]#[N:18]>>[C:1]1([H:7])([H:8])[C:2]([CH3:17])=[C:3]([H:10])[C:4]([H:11])([H:12])[C:6]([H:15])([C:16]#[N:18])[C:5]1([H:13])[H:14]",
    "epoxide_h2": "[CH3:1][CH:2]1[O:3][C:4]1([H:8])[H:9].[H:5][H:6]>>[CH3:1][CH:2]([O:3][H:5])[C:4]([H:8])([H:9])[H:6]",
    "hydroamination": "[CH3:1][NH:2][N:3]([H:9])[H:10].[CH3:4][C:5]([H:11])=[C:6]([H:12])[H:13]>>[CH3:1][NH:2][N:3]([H:9])[C:6]([H:12])([H:13])[C:5]([H:11])([CH3:4])[H:10]",
    "amide_formation": "[CH3:1][C:2](=[O:3])[Cl:4].[CH3:5][N:6]([H:7])[H:8]>>[CH3:1][C:2](=[O:3])[N:6]([CH3:5])[H:8].[H:7][Cl:4]",
    "hcl_isobutene": "[CH3:1][C:2]([CH3:9])=[C:3]([H:7])[H:8].[H:4][Cl:5]>>[CH3:1][C:2]([CH3:9])([Cl:5])[C:3]([H:7])([H:8])[H:4]",
    "sn2": "[CH3:1][C:2]([H:5])([H:6])[Br:3].[O-:4][H:7]>>[CH3:1][C:2]([H:5])([H:6])[O:4][H:7].[Br-:3]",
    "imine_formation": "[CH3:1][C:2]([H:8])=[O:3].[CH3:4][N:5]([H:6])[H:7]>>[CH3:1][C:2]([H:8])=[N:5][CH3:4].[H:6][O:3][H:7]",
    "protonation": "[CH3:1][N:2]([H:3])[H:4].[H+:5]>>[CH3:1][N+:2]([H:3])([H:4])[H:5]",
    "deprotonation": "[CH3:1][C:2](=[O:3])[O:4][H:5].[O-:6][H:7]>>[CH3:1][C:2](=[O:3])[O-:4].[H:5][O:6][H:7]",
    "hydride_addition": "[CH3:1][C:2]([H:6])=[O:3].[H-:4]>>[CH3:1][C:2]([H:6])([H:4])[O-:3]",
    "acylation_dmap": "[CH3:1][C:2](=[O:3])[Cl:4].[CH3:5][O:6][H:7].[CH3:8][N:9]([CH3:10])[c:11]1[cH:12][cH:13][n:14][cH:15][cH:16]1>>[CH3:1][C:2](=[O:3])[O:6][CH3:5].[Cl-:4].[CH3:8][N:9]([CH3:10])[c:11]1[cH:12][cH:13][n+:14]([H:7])[cH:15][cH:16]1",
    # same-element atoms that differ only in charge next to the centre; the hydrogen leaves as a bare proton
    "phosphate_deprotonation": "[CH3:1][O:2][P:3](=[O:4])([O-:5])[O:6][H:7]>>[CH3:1][O:2][P:3](=[O:4])([O-:5])[O-:6].[H+:7]",
    "sulfonate_protonation": "[CH3:1][S:2](=[O:3])(=[O:4])[O-:5].[H+:6]>>[CH3:1][S:2](=[O:3])(=[O:4])[O:5][H:6]",
    # two copies of the same molecule on one side
    "ether_formation": "[CH3:1][O:2][H:3].[CH3:4][O:5][H:6]>>[CH3:1][O:2][CH3:4].[H:3][O:5][H:6]",
    "aldol": "[CH3:1][C:2]([H:8])=[O:3].[C:4]([H:9])([H:10])([H:11])[C:5]([H:12])=[O:6]>>[CH3:1][C:2]([H:8])([O:3][H:9])[C:4]([H:10])([H:11])[C:5]([H:12])=[O:6]",
    "anhydride_formation": "[CH3:1][C:2](=[O:3])[O:4][H:9].[CH3:5][C:6](=[O:7])[O:8][H:10]>>[CH3:1][C:2](=[O:3])[O:4][C:6](=[O:7])[CH3:5].[H:9][O:8][H:10]",
    # an aromatic ring is formed (opened when applied backwards)
    "paal_knorr_furan": "[CH3:1][C:2](=[O:3])[C:4]([H:9])([H:10])[C:5]([H:11])([H:12])[C:6](=[O:7])[CH3:8]>>[CH3:1][c:2]1[c:4]([H:9])[c:5]([H:11])[c:6]([CH3:8])[o:3]1.[H:10][O:7][H:12]",
    "paal_knorr_pyrrole": "[CH3:1][C:2](=[O:3])[C:4]([H:9])([H:10])[C:5]([H:11])([H:12])[C:6](=[O:7])[CH3:8].[CH3:13][N:14]([H:15])[H:16]>>[CH3:1][c:2]1[c:4]([H:9])[c:5]([H:11])[c:6]([CH3:8])[n:14]1[CH3:13].[H:10][O:7][H:12].[H:15][O:3][H:16]",
    "alkyne_trimerisation": "[CH3:7][C:1]#[CH:2].[CH:3]#[CH:4].[CH:5]#[CH:6]>>[CH3:7][c:1]1[cH:2][cH:3][cH:4][cH:5][cH:6]1",
    # both partners unsymmetrical: two regioisomers exist, the rule's only symmetry is the joint flip
    "diels_alder_unsym": "[CH3:17][C:1]([H:7])=[C:2]([H:9])[C:3]([H:10])=[C:4]([H:11])[H:12].[C:5]([H:13])([H:14])=[C:6]([H:15])[C:16]#[N:18]>>[CH3:17][C:1]1([H:7])[C:2]([H:9])=[C:3]([H:10])[C:4]([H:11])([H:12])[C:5]([H:13])([H:14])[C:6]1([H:15])[C:16]#[N:18]",
    # a symmetric substrate: the rule written on ethylene oxide has two look-alike carbons (see CUR_FOREIGN for unsymmetrical substrates)
    "epoxide_h2_sym": "[C:1]1([H:6])([H:7])[O:3][C:2]1([H:8])[H:9].[H:4][H:5]>>[H:4][C:1]([H:6])([H:7])[C:2]([H:8])([H:9])[O:3][H:5]",
    "transesterification": "[CH3:1][C:2](=[O:3])[O:4][CH3:5].[CH3:6][CH2:7][O:8][H:9]>>[CH3:1][C:2](=[O:3])[O:8][CH2:7][CH3:6].[CH3:5][O:4][H:9]",
}


def minimal_explicit(rsmi: str) -> str:
    """corpus style: only the hydrogens that change their bonding stay explicit; spectator hydrogens become implicit"""
    from rdkit import Chem

    ps = Chem.SmilesParserParams()
    ps.removeHs = False
    r, p = rsmi.split(">>")
    mols = [Chem.RWMol(Chem.MolFromSmiles(x, ps)) for x in (r, p)]

    def nbr_maps(m):
        out = {}
        for a in m.GetAtoms():
            if a.GetSymbol() == "H" and a.GetAtomMapNum():
                out[a.GetAtomMapNum()] = sorted(n.GetAtomMapNum() for n in a.GetNeighbors())
        return out

    n0, n1 = nbr_maps(mols[0]), nbr_maps(mols[1])
    spect = {h for h in n0 if h in n1 and n0[h] == n1[h] and len(n0[h]) == 1}
    # do not fold hydrogens bonded to hydrogen
    out = []
    for m in mols:
        sym = {a.GetAtomMapNum(): a.GetSymbol() for a in m.GetAtoms()}
        rm = []
        for a in m.GetAtoms():
            if a.GetSymbol() == "H" and a.GetAtomMapNum() in spect:
                nb = a.GetNeighbors()[0]
                if nb.GetSymbol() == "H":
                    continue
                nb.SetNumExplicitHs(nb.GetNumExplicitHs() + 1)
                nb.SetNoImplicit(True)
                rm.append(a.GetIdx())
        for i in sorted(rm, reverse=True):
            m.RemoveAtom(i)
        out.append(Chem.MolToSmiles(m, canonical=False))
    return ">>".join(out)


# substrates of other molecules for the curated rules (forward direction): several inequivalent sites for the same rule
CUR_FOREIGN = {
    "epoxide_h2_sym": ["CC1CO1.[H][H]", "CC1OC1(C)C.[H][H]"],
    "epoxide_h2": ["CC1OC1.[H][H]", "CC1OC1C.[H][H]"],
    "hbr_propene": ["CC(C)=CC.Br", "C=CC=C.Br", "CC=CCC.Br"],
    "h2o_propene": ["CC(C)=CC.O", "CC=CCC.O"],
    "diels_alder": ["CC=CC=C.C=CC#N", "C=CC(C)=C.C=CC"],
    "esterification": ["OC(=O)CC(=O)O.CO", "CC(=O)O.OCCO", "CC(=O)O.OCC(C)O"],
    "sn2": ["BrCCBr.[OH-]", "CC(Br)CBr.[OH-]"],
    "amide_formation": ["CC(=O)Cl.NCCN", "CC(=O)Cl.CNCCN"],
    "imine_formation": ["CC(=O)CC=O.CN", "CC=O.NCCN"],
    "ether_formation": ["CO.CCO", "CO.OCCO"],
    "aldol": ["CC=O.CCC=O", "CC(=O)C.CC=O"],
    "hydroamination": ["CNN.CC=CCC", "CNN.C=CC=C"],
    "deprotonation": ["OC(=O)CC(=O)O.[OH-]", "CC(=O)O.[OH-].O"],
    "protonation": ["NCCN.[H+]", "CNC.[H+]"],
}
