"""Bounded-exhaustive enumeration of small labelled graphs (DESIGN §2.2).

A graph is the pair (labels, edges): ``labels`` a tuple of node-label indices
for nodes 1..n, ``edges`` a tuple over the pairs (1,2),(1,3),..,(n-1,n) of
edge-label indices, 0 = absent.
"""
from __future__ import annotations

import itertools
from typing import Iterator, List, Sequence, Tuple

Code = Tuple[Tuple[int, ...], Tuple[int, ...]]


def pairs(n):
    return [(i, j) for i in range(n) for j in range(i + 1, n)]


def all_labelled(n: int, n_vlabels: int, n_elabels: int) -> Iterator[Code]:
    """Every labelled graph on n nodes: n_vlabels**n * (n_elabels+1)**C(n,2)."""
    for labels in itertools.product(range(n_vlabels), repeat=n):
        for edges in itertools.product(range(n_elabels + 1), repeat=n * (n - 1) // 2):
            yield labels, edges


def permute(code: Code, perm: Sequence[int]) -> Code:
    """Node i of the result is node perm[i] of the input."""
    labels, edges = code
    n = len(labels)
    pr = pairs(n)
    idx = {p: k for k, p in enumerate(pr)}
    nl = tuple(labels[perm[i]] for i in range(n))
    ne = []
    for (i, j) in pr:
        a, b = perm[i], perm[j]
        if a > b:
            a, b = b, a
        ne.append(edges[idx[(a, b)]])
    return nl, tuple(ne)


def representatives(n: int, n_vlabels: int, n_elabels: int, connected_only=False) -> Iterator[Code]:
    """One member per isomorphism class (orderly: labels non-decreasing and the
    edge tuple lexicographically least among permutations fixing the labels)."""
    pr = pairs(n)
    for labels in itertools.combinations_with_replacement(range(n_vlabels), n):
        # permutations that keep the label sequence
        perms = [p for p in itertools.permutations(range(n)) if all(labels[p[i]] == labels[i] for i in range(n))]
        for edges in itertools.product(range(n_elabels + 1), repeat=len(pr)):
            code = (labels, edges)
            if any(permute(code, p)[1] < edges for p in perms):
                continue
            if connected_only and not is_connected(code):
                continue
            yield code


def is_connected(code: Code) -> bool:
    labels, edges = code
    n = len(labels)
    if n == 0:
        return True
    adj = {i: set() for i in range(n)}
    for (i, j), e in zip(pairs(n), edges):
        if e:
            adj[i].add(j)
            adj[j].add(i)
    seen, st = {0}, [0]
    while st:
        u = st.pop()
        for v in adj[u]:
            if v not in seen:
                seen.add(v)
                st.append(v)
    return len(seen) == n


def n_edges(code: Code) -> int:
    return sum(1 for e in code[1] if e)


def to_nx(code: Code, vattrs: Sequence[dict], eattrs: Sequence[dict], node_ids=None, node_order=None, edge_flip=False):
    """Build an nx.Graph.  vattrs[k] / eattrs[k-1] are attribute dicts for label
    index k.  node_ids: list mapping position -> node id (default 1..n).
    node_order: insertion order of positions."""
    import networkx as nx

    labels, edges = code
    n = len(labels)
    ids = node_ids or list(range(1, n + 1))
    G = nx.Graph()
    for i in node_order or range(n):
        G.add_node(ids[i], **dict(vattrs[labels[i]]))
    for (i, j), e in zip(pairs(n), edges):
        if e:
            if edge_flip:
                G.add_edge(ids[j], ids[i], **dict(eattrs[e - 1]))
            else:
                G.add_edge(ids[i], ids[j], **dict(eattrs[e - 1]))
    return G


def code_str(code: Code) -> str:
    return "".join(map(str, code[0])) + "/" + "".join(map(str, code[1]))


def parse_code(s: str) -> Code:
    a, b = s.split("/")
    return tuple(int(c) for c in a), tuple(int(c) for c in b)
