"""Histories for the analysis checks: analyse, edit the same network object in place, analyse again.

A case is {"net": <network string>, "edit": [...]}:
  ["replace", k, "<reaction>"]  remove reaction k and add a different reaction under the same id
  ["rmsp", "X"]                 remove_species(X) (prune_orphans=True)
The expected network after the edit is computed on the tuple form."""
from __future__ import annotations

from mc import enum_crn as ec


def gen_edits(tier):
    rx = ec.reactions(3, 1)
    for net in ec.networks(3, 2, 1, rmin=2, quotient=True):
        used = {i for l, r in net for i in range(3) if l[i] or r[i]}
        for k in range(2):
            for new in rx:
                if new == net[k]:
                    continue
                net2 = tuple(new if j == k else net[j] for j in range(2))
                used2 = {i for l, r in net2 for i in range(3) if l[i] or r[i]}
                if used2 != used:
                    continue
                if tier == "quick" and (hash_small(net, k, new) % 4):
                    continue
                yield {"net": ec.net_str(net), "edit": ["replace", k, ec.net_str((new,))]}
        for i in sorted(used):
            yield {"net": ec.net_str(net), "edit": ["rmsp", ec.SPECIES[i]]}


def hash_small(net, k, new):
    import zlib

    return zlib.crc32(repr((net, k, new)).encode())


def pad(net, n=3):
    return tuple((tuple(l) + (0,) * (n - len(l)), tuple(r) + (0,) * (n - len(r))) for l, r in net)


def apply_edit(H, net, edit):
    """Edit H in place; return (expected network tuple, list of ids in order) or None if the network becomes empty."""
    ids = [e.id for e in H.edge_list()]
    net = pad(net)
    if edit[0] == "replace":
        k = edit[1]
        new = pad(ec.parse_net(edit[2]))[0]
        H.remove_rxn(ids[k])
        H.add_rxn(ec.side_dict(new[0]), ec.side_dict(new[1]), rule=None, edge_id=ids[k])
        # the re-added reaction is last in the store's insertion order
        return tuple(net[j] for j in range(len(net)) if j != k) + (new,)
    if edit[0] == "rmsp":
        i = ec.SPECIES.index(edit[1])
        H.remove_species(edit[1])
        out = []
        for l, r in net:
            l2 = tuple(0 if j == i else c for j, c in enumerate(l))
            r2 = tuple(0 if j == i else c for j, c in enumerate(r))
            if any(l2) or any(r2):
                out.append((l2, r2))
        return tuple(out)
    raise AssertionError(edit)
