"""./check <ID> [--tier quick|thorough] [--replay <file>]"""
import argparse
import importlib
import json
import os
import sys
import time


def main():
    ap = argparse.ArgumentParser()
    ap.add_argument("prop")
    ap.add_argument("--tier", default=os.environ.get("VERIF_TIER") or "quick")
    ap.add_argument("--replay", default=None)
    ap.add_argument("--nproc", type=int, default=None)
    args = ap.parse_args()
    if args.nproc:
        os.environ["VERIF_NPROC"] = str(args.nproc)
    from mc import core

    if args.nproc:
        core.NPROC = args.nproc
    core.quiet()
    core.assert_repo_tree()
    seed = int(os.environ.get("VERIF_SEED", "0") or 0)
    mod = importlib.import_module(f"mc.checks.{args.prop.lower()}")
    if args.replay:
        v = json.load(open(args.replay))
        sys.exit(replay(mod, v, args.tier, seed))
    t0 = time.time()
    acc, exhaustive, extra = mod.run(args.tier, seed)
    rc = core.finish(
        mod.PROPERTY, args.tier, seed, acc, t0, mod.RULE[args.tier] if isinstance(mod.RULE, dict) else mod.RULE,
        exhaustive, mod.ASSUMPTIONS, extra_cov=extra,
    )
    sys.exit(rc)


def replay(mod, v, tier, seed):
    """Re-run one recorded case without the explorer, twice, and compare."""
    if hasattr(mod, "replay"):
        return mod.replay(v)
    subs = {s.name: s for s in mod.subchecks(tier, seed)}
    sub = subs[v["subcheck"]]
    if sub.setup:
        sub.setup()
    outs = []
    for _ in range(2):
        out = sub.check(v["case"])
        outs.append([(f.tag, f.observed, f.expected) for f in out.fails])
    if outs[0] != outs[1]:
        print("HARNESS-ERROR: replay not reproducible", outs)
        return 2
    for tag, obs, exp in outs[0]:
        print(f"  {v['subcheck']}/{tag}: observed={obs} expected={exp}")
    if outs[0]:
        print(f"VIOLATION property={mod.PROPERTY} replay=(this file) reproduced")
        return 1
    print("replay: case passes")
    return 0


if __name__ == "__main__":
    main()
