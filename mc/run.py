"""./check <ID> [--tier quick|thorough] [--replay <file>]"""
import argparse
import importlib
import json
import os
import sys
import time


def main():
    ap = argparse.ArgumentParser()
    ap.add_argument("prop")
    ap.add_argument("--tier", default=os.environ.get("VERIF_TIER") or "quick")
    ap.add_argument("--replay", default=None)
    ap.add_argument("--nproc", type=int, default=None)
    args = ap.parse_args()
    if args.nproc:
        os.environ["VERIF_NPROC"] = str(args.nproc)
    from mc import core

    if args.nproc:
        core.NPROC = args.nproc
    core.quiet()
    core.assert_repo_tree()
    seed = int(os.environ.get("VERIF_SEED", "0") or 0)
    mod = importlib.import_module(f"mc.checks.{args.prop.lower()}")
    if args.replay:
        v = json.load(open(args.replay))
        sys.exit(replay(mod, v, args.tier, seed))
    t0 = time.time()
    try:
        acc, exhaustive, extra = mod.run(args.tier, seed)
    except Exception as e:  # the library raised somewhere no sub-check expects it: the exploration cannot vouch for the property
        import traceback

        tb = traceback.format_exc()
        acc, exhaustive, extra = core.Acc(), False, {"aborted": f"{type(e).__name__}: {e}"}
        acc.violations.append({"sub": "exploration/aborted_by_exception", "key": f"{type(e).__name__}", "observed": tb[-1500:], "expected": "the exploration runs to completion (it does on the unchanged tree)",
                               "case": {"traceback": tb[-4000:]}, "subcheck": "exploration"})
    if args.tier == "thorough" and not os.environ.get("VERIF_EVIDENCE_OUT"):
        extra = dict(extra or {})
        extra.update(hashseed_runs(args.prop, acc))
    rc = core.finish(
        mod.PROPERTY, args.tier, seed, acc, t0, mod.RULE[args.tier] if isinstance(mod.RULE, dict) else mod.RULE,
        exhaustive, mod.ASSUMPTIONS, extra_cov=extra,
    )
    sys.exit(rc)


def hashseed_runs(prop, acc):
    """E3, container-order answer: the quick enumeration is re-executed in fresh interpreters under PYTHONHASHSEED 0..3
    (iteration order of sets of strings is then an enumerated environment answer); all runs must report the same
    outcome histogram and no new violation."""
    import subprocess
    import tempfile
    from mc import core

    digests = {}
    for hs in (0, 1, 2, 3, "0r"):
        with tempfile.NamedTemporaryFile(suffix=".json", dir=os.path.join(core.VERIF, "evidence"), prefix=".hs_", delete=False) as tf:
            out = tf.name
        env = dict(os.environ, PYTHONHASHSEED=str(hs).rstrip("r"), VERIF_EVIDENCE_OUT=out, VERIF_TIER="quick")
        if str(hs).endswith("r"):
            env["VERIF_ORDER"] = "reversed"  # same enumeration, every worker runs its cases last-first
        r = subprocess.run([sys.executable, "-m", "mc.run", prop, "--tier", "quick"], cwd=core.VERIF, env=env, capture_output=True, text=True)
        try:
            ev = json.load(open(out))
            cov = ev["coverage"]
            digests[hs] = (r.returncode, cov["states"], cov["transitions"], core.digest(cov.get("outcome_histogram")), ev.get("violations"))
        except Exception as e:
            digests[hs] = ("no evidence", str(e))
        finally:
            try:
                os.remove(out)
            except OSError:
                pass
            import shutil

            shutil.rmtree(out + ".replays", ignore_errors=True)
    vals = set(digests.values())
    if len(vals) > 1 or any(d[0] != 0 for d in digests.values()):
        acc.violations.append({"sub": "hashseed/outcome_depends_on_hash_seed", "key": "quick-tier under PYTHONHASHSEED 0..3 and reversed case order", "observed": json.dumps(digests), "expected": "identical outcome digests, exit 0",
                               "case": {"hashseeds": [0, 1, 2, 3, "0 reversed"]}, "subcheck": "hashseed"})
    return {"hashseed_runs": {str(k): list(map(str, v)) for k, v in digests.items()}}


def replay(mod, v, tier, seed):
    """Re-run one recorded case without the explorer, twice, and compare."""
    if hasattr(mod, "replay"):
        return mod.replay(v)
    subs = {s.name: s for s in mod.subchecks(tier, seed)}
    sub = subs[v["subcheck"]]
    if sub.setup:
        sub.setup()
    outs = []
    for _ in range(2):
        out = sub.check(v["case"])
        outs.append([(f.tag, f.observed, f.expected) for f in out.fails])
    if outs[0] != outs[1]:
        print("HARNESS-ERROR: replay not reproducible", outs)
        return 2
    for tag, obs, exp in outs[0]:
        print(f"  {v['subcheck']}/{tag}: observed={obs} expected={exp}")
    if outs[0]:
        print(f"VIOLATION property={mod.PROPERTY} replay=(this file) reproduced")
        return 1
    print("replay: case passes")
    return 0


if __name__ == "__main__":
    main()
