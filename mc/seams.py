"""E3 — stateless, deviation-bounded exploration of environment answers (DESIGN §2.4).

A ``Chooser`` records choice points.  ``choose(n)`` returns the recorded answer
while replaying a prefix and 0 (the default answer) afterwards.  ``explore``
is the CHESS-style loop: all executions with 0 deviations from the default
answers, then 1, then 2, ...  A divergence while replaying a prefix is a hard
error (the harness does not own all nondeterminism)."""
from __future__ import annotations

from typing import Any, Callable, List, Tuple


class ReplayDivergence(Exception):
    pass


class Chooser:
    def __init__(self, prefix: List[int] = (), expect: List[int] = ()):
        self.prefix = list(prefix)
        self.expect = list(expect)  # number of alternatives seen at each prefix point in the parent run
        self.points: List[int] = []  # number of alternatives at each point
        self.choices: List[int] = []

    def choose(self, n: int) -> int:
        """n >= 1 alternatives; returns an index in range(n)."""
        i = len(self.points)
        if i < len(self.prefix):
            c = self.prefix[i]
            if i < len(self.expect) and self.expect[i] != n:
                raise ReplayDivergence(f"choice point {i}: {n} alternatives, recorded {self.expect[i]}")
            if c >= n:
                raise ReplayDivergence(f"choice point {i}: recorded choice {c} out of range {n}")
        else:
            c = 0
        self.points.append(n)
        self.choices.append(c)
        return c


def explore(run: Callable[[Chooser], Any], bound: int, max_exec: int = 100000) -> Tuple[List[Tuple[List[int], Any]], bool]:
    """Run ``run(chooser)`` for every choice sequence with at most ``bound``
    non-default answers.  Returns ([(choices, result)], complete)."""
    out = []
    stack = [([], [], 0)]  # (prefix, expect, deviations so far)
    complete = True
    while stack:
        prefix, expect, dev = stack.pop()
        ch = Chooser(prefix, expect)
        res = run(ch)
        out.append((list(ch.choices), res))
        if len(out) >= max_exec:
            complete = False
            break
        if dev >= bound:
            continue
        for i in range(len(prefix), len(ch.points)):
            for alt in range(1, ch.points[i]):
                stack.append((ch.choices[:i] + [alt], ch.points[: i + 1], dev + 1))
    return out, complete


class IdSeam:
    """Replacement for the builtin ``id`` inside one module.  Default answer: a
    fresh integer never handed out before.  Alternatives: the id previously
    returned for an object that is dead now.  ``is_dead(obj_record)`` decides
    liveness; for unowned temporaries (refcount == baseline) the object is dead
    as soon as id() returns."""

    def __init__(self, chooser: Chooser, scoped: bool = False):
        """scoped: forget dead ids whenever the calling frame changes (sound when the
        structure keyed by id() lives in a local variable of the caller)."""
        self.ch = chooser
        self.scoped = scoped
        self._frame = None
        self.fresh = 10**9
        self.dead_ids: List[int] = []
        self.calls = 0
        self._calibrating = True
        self.baseline = self(tuple([0]))  # refcount seen for an unowned temporary through this call path
        self._calibrating = False
        self.calls = 0

    def __call__(self, obj):
        import sys

        if self._calibrating:
            return sys.getrefcount(obj)
        rc = sys.getrefcount(obj)
        self.calls += 1
        if self.scoped:
            fr = sys._getframe(1)
            if fr is not self._frame:
                self._frame = fr
                self.dead_ids = []
        n = 1 + len(self.dead_ids)
        c = self.ch.choose(n)
        if c == 0:
            self.fresh += 8
            val = self.fresh
        else:
            val = self.dead_ids[c - 1]
        # an unowned temporary is dead as soon as id() returns: its id may legally come back
        if rc <= self.baseline and val not in self.dead_ids:
            self.dead_ids.append(val)
        return val


class ObjectIdSeam:
    """Replacement for ``id`` that also serves long-lived objects.  A live object keeps the id it was given; a new
    object receives, at the chooser's will, a fresh id (default) or the id of any object that was passed before and is
    dead now (weak reference cleared after a gc pass; unowned temporaries that cannot be weakly referenced are dead as
    soon as the call returns).  Live objects are never aliased."""

    def __init__(self, chooser: Chooser):
        import weakref

        self._weakref = weakref
        self.ch = chooser
        self.fresh = 10**9
        self.live = {}  # real id -> (weakref or None, value)
        self.dead_vals: List[int] = []
        self.calls = 0
        self.aliased = 0

    def _sweep(self):
        import gc

        gc.collect()  # callers freeze the pre-existing heap (gc.freeze) so that this only scans recent objects
        for rid in list(self.live):
            wr, val = self.live[rid]
            if wr is not None and wr() is None:
                del self.live[rid]
                if val not in self.dead_vals:
                    self.dead_vals.append(val)

    def __call__(self, obj):
        self.calls += 1
        rid = _REAL_ID(obj)
        ent = self.live.get(rid)
        if ent is not None and ent[0] is not None and ent[0]() is obj:
            return ent[1]
        self._sweep()
        n = 1 + len(self.dead_vals)
        c = self.ch.choose(n)
        if c == 0:
            self.fresh += 8
            val = self.fresh
        else:
            val = self.dead_vals.pop(c - 1)
            self.aliased += 1
        try:
            wr = self._weakref.ref(obj)
            self.live[rid] = (wr, val)
        except TypeError:
            # not weak-referenceable (tuple, int, ...): treat as a temporary that dies at once
            if val not in self.dead_vals:
                self.dead_vals.append(val)
        return val


_REAL_ID = id


class VirtualParallel:
    """Stand-in for ``joblib.Parallel``: runs the tasks in submission order in this process.  With n_jobs == 1 the
    callables run directly (as joblib does).  Otherwise the task list is cut into contiguous batches (cut points are
    chooser decisions, default: one batch); each batch is serialised with cloudpickle and run on the deserialised copy,
    so state is shared inside a batch and not across batches or with the parent; results come back through pickle, in
    submission order, as joblib guarantees."""

    chooser: Chooser = None
    log = None

    def __init__(self, n_jobs=1, **kw):
        self.n_jobs = n_jobs

    def __call__(self, iterable):
        import pickle
        import cloudpickle

        tasks = list(iterable)
        if self.n_jobs in (1, None) or len(tasks) == 0:
            return [f(*a, **k) for f, a, k in tasks]
        ch = VirtualParallel.chooser
        cuts = [ch.choose(2) if ch is not None else 0 for _ in range(len(tasks) - 1)]
        batches, cur = [], [tasks[0]]
        for t, c in zip(tasks[1:], cuts):
            if c:
                batches.append(cur)
                cur = [t]
            else:
                cur.append(t)
        batches.append(cur)
        if VirtualParallel.log is not None:
            VirtualParallel.log.append([len(b) for b in batches])
        out = []
        for b in batches:
            copy = cloudpickle.loads(cloudpickle.dumps(b))
            res = [f(*a, **k) for f, a, k in copy]
            out.extend(pickle.loads(pickle.dumps(res)))
        return out


class VirtualExecutor:
    """Stand-in for ``concurrent.futures.ProcessPoolExecutor`` as SynCRN uses it (context manager + ``map``): every task
    is run in this process on a pickled copy, results come back through pickle in submission order (what ``map``
    guarantees); the number of workers has no influence on what a correct caller can observe."""

    created = []

    def __init__(self, max_workers=None, **kw):
        self.max_workers = max_workers
        VirtualExecutor.created.append(max_workers)

    def __enter__(self):
        return self

    def __exit__(self, *a):
        return False

    def map(self, fn, *iterables, timeout=None, chunksize=1):
        import pickle

        def gen():
            for args in zip(*iterables):
                a = pickle.loads(pickle.dumps(args))
                yield pickle.loads(pickle.dumps(fn(*a)))

        return gen()

    def submit(self, fn, *a, **k):
        import pickle
        from concurrent.futures import Future

        f = Future()
        try:
            aa, kk = pickle.loads(pickle.dumps((a, k)))
            f.set_result(pickle.loads(pickle.dumps(fn(*aa, **kk))))
        except BaseException as e:  # noqa
            f.set_exception(e)
        return f

    def shutdown(self, *a, **k):
        pass
