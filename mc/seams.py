"""E3 — stateless, deviation-bounded exploration of environment answers (DESIGN §2.4).

A ``Chooser`` records choice points.  ``choose(n)`` returns the recorded answer
while replaying a prefix and 0 (the default answer) afterwards.  ``explore``
is the CHESS-style loop: all executions with 0 deviations from the default
answers, then 1, then 2, ...  A divergence while replaying a prefix is a hard
error (the harness does not own all nondeterminism)."""
from __future__ import annotations

from typing import Any, Callable, List, Tuple


class ReplayDivergence(Exception):
    pass


class Chooser:
    def __init__(self, prefix: List[int] = (), expect: List[int] = ()):
        self.prefix = list(prefix)
        self.expect = list(expect)  # number of alternatives seen at each prefix point in the parent run
        self.points: List[int] = []  # number of alternatives at each point
        self.choices: List[int] = []

    def choose(self, n: int) -> int:
        """n >= 1 alternatives; returns an index in range(n)."""
        i = len(self.points)
        if i < len(self.prefix):
            c = self.prefix[i]
            if i < len(self.expect) and self.expect[i] != n:
                raise ReplayDivergence(f"choice point {i}: {n} alternatives, recorded {self.expect[i]}")
            if c >= n:
                raise ReplayDivergence(f"choice point {i}: recorded choice {c} out of range {n}")
        else:
            c = 0
        self.points.append(n)
        self.choices.append(c)
        return c


def explore(run: Callable[[Chooser], Any], bound: int, max_exec: int = 100000) -> Tuple[List[Tuple[List[int], Any]], bool]:
    """Run ``run(chooser)`` for every choice sequence with at most ``bound``
    non-default answers.  Returns ([(choices, result)], complete)."""
    out = []
    stack = [([], [], 0)]  # (prefix, expect, deviations so far)
    complete = True
    while stack:
        prefix, expect, dev = stack.pop()
        ch = Chooser(prefix, expect)
        res = run(ch)
        out.append((list(ch.choices), res))
        if len(out) >= max_exec:
            complete = False
            break
        if dev >= bound:
            continue
        for i in range(len(prefix), len(ch.points)):
            for alt in range(1, ch.points[i]):
                stack.append((ch.choices[:i] + [alt], ch.points[: i + 1], dev + 1))
    return out, complete


class IdSeam:
    """Replacement for the builtin ``id`` inside one module.  Default answer: a
    fresh integer never handed out before.  Alternatives: the id previously
    returned for an object that is dead now.  ``is_dead(obj_record)`` decides
    liveness; for unowned temporaries (refcount == baseline) the object is dead
    as soon as id() returns."""

    def __init__(self, chooser: Chooser, scoped: bool = False):
        """scoped: forget dead ids whenever the calling frame changes (sound when the
        structure keyed by id() lives in a local variable of the caller)."""
        self.ch = chooser
        self.scoped = scoped
        self._frame = None
        self.fresh = 10**9
        self.dead_ids: List[int] = []
        self.calls = 0
        self._calibrating = True
        self.baseline = self(tuple([0]))  # refcount seen for an unowned temporary through this call path
        self._calibrating = False
        self.calls = 0

    def __call__(self, obj):
        import sys

        if self._calibrating:
            return sys.getrefcount(obj)
        rc = sys.getrefcount(obj)
        self.calls += 1
        if self.scoped:
            fr = sys._getframe(1)
            if fr is not self._frame:
                self._frame = fr
                self.dead_ids = []
        n = 1 + len(self.dead_ids)
        c = self.ch.choose(n)
        if c == 0:
            self.fresh += 8
            val = self.fresh
        else:
            val = self.dead_ids[c - 1]
        # an unowned temporary is dead as soon as id() returns: its id may legally come back
        if rc <= self.baseline and val not in self.dead_ids:
            self.dead_ids.append(val)
        return val
