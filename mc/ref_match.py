"""Independent oracle: plain backtracking enumeration of (mono|induced) morphisms.

Uses NetworkX only as a data structure (nodes / adjacency dictionaries); no
NetworkX algorithm is called.  Works for Graph and DiGraph.
"""
from __future__ import annotations

from typing import Callable, Dict, Iterator, List, Optional


def _has(G, u, v):
    return v in G._adj[u] if not G.is_directed() else v in G._succ[u]


def morphisms(
    P,
    H,
    node_ok: Callable[[dict, dict], bool],
    edge_ok: Callable[[dict, dict], bool],
    induced: bool = False,
    limit: Optional[int] = None,
) -> Iterator[Dict]:
    """Yield every injective map V(P) -> V(H) with node_ok(P.nodes[p], H.nodes[h])
    for all p, and for every P-edge (p,q) an H-edge (m[p],m[q]) with
    edge_ok(P-edge-data, H-edge-data).  With ``induced`` additionally no H-edge
    between images of non-adjacent pattern nodes.  Directed graphs: arcs are
    treated per direction."""
    pn = list(P.nodes)
    hn = list(H.nodes)
    if len(pn) > len(hn):
        return
    directed = P.is_directed()
    cand = {p: [h for h in hn if node_ok(P.nodes[p], H.nodes[h])] for p in pn}
    # order: most constrained first, then connected to already chosen
    order: List = []
    rest = set(pn)
    while rest:
        best = min(rest, key=lambda p: (0 if any(_has(P, p, q) or _has(P, q, p) for q in order) else 1, len(cand[p]), pn.index(p)))
        order.append(best)
        rest.discard(best)
    m: Dict = {}
    used = set()
    count = [0]

    def ok_pair(p, h, q, g):
        # check arcs p->q and q->p (undirected: one test)
        if _has(P, p, q):
            if not _has(H, h, g) or not edge_ok(P[p][q], H[h][g]):
                return False
        elif induced and _has(H, h, g):
            return False
        if directed:
            if _has(P, q, p):
                if not _has(H, g, h) or not edge_ok(P[q][p], H[g][h]):
                    return False
            elif induced and _has(H, g, h):
                return False
        return True

    def rec(i):
        if limit is not None and count[0] >= limit:
            return
        if i == len(order):
            count[0] += 1
            yield dict(m)
            return
        p = order[i]
        for h in cand[p]:
            if h in used:
                continue
            if _has(P, p, p):  # self loop
                if not _has(H, h, h) or not edge_ok(P[p][p], H[h][h]):
                    continue
            elif induced and _has(H, h, h):
                continue
            good = True
            for q in order[:i]:
                if not ok_pair(p, h, q, m[q]):
                    good = False
                    break
            if not good:
                continue
            m[p] = h
            used.add(h)
            yield from rec(i + 1)
            used.discard(h)
            del m[p]

    yield from rec(0)


def attr_eq(keys, default=None):
    keys = tuple(keys)

    def f(a, b):
        for k in keys:
            if a.get(k, default) != b.get(k, default):
                return False
        return True

    return f


def isomorphic(G1, G2, node_ok, edge_ok) -> bool:
    if G1.number_of_nodes() != G2.number_of_nodes() or G1.number_of_edges() != G2.number_of_edges():
        return False
    for _ in morphisms(G1, G2, node_ok, edge_ok, induced=True, limit=1):
        return True
    return False


def iso_map(G1, G2, node_ok, edge_ok):
    if G1.number_of_nodes() != G2.number_of_nodes() or G1.number_of_edges() != G2.number_of_edges():
        return None
    for m in morphisms(G1, G2, node_ok, edge_ok, induced=True, limit=1):
        return m
    return None


def automorphisms(G, node_ok, edge_ok) -> List[Dict]:
    return list(morphisms(G, G, node_ok, edge_ok, induced=True))


def orbits(G, autos) -> List[frozenset]:
    parent = {v: v for v in G.nodes}

    def find(x):
        while parent[x] != x:
            parent[x] = parent[parent[x]]
            x = parent[x]
        return x

    for a in autos:
        for u, v in a.items():
            ru, rv = find(u), find(v)
            if ru != rv:
                parent[ru] = rv
    cls = {}
    for v in G.nodes:
        cls.setdefault(find(v), set()).add(v)
    return sorted((frozenset(c) for c in cls.values()), key=lambda c: sorted(map(repr, c)))


def components(G) -> List[set]:
    """Connected components (weak for DiGraph) by own BFS."""
    seen, out = set(), []
    for s in G.nodes:
        if s in seen:
            continue
        comp, stack = {s}, [s]
        while stack:
            u = stack.pop()
            nb = set(G._adj[u]) if not G.is_directed() else set(G._succ[u]) | set(G._pred[u])
            for v in nb:
                if v not in comp:
                    comp.add(v)
                    stack.append(v)
        seen |= comp
        out.append(comp)
    return out
